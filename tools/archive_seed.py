#!/usr/bin/env python3
"""tools/archive_seed.py <seed_dir> <id> <property> <detected_by> <needs...>: copy a confirmed seeded change into /verif/seeded/<id>/"""
import json, os, shutil, sys
src, sid, prop, detected = sys.argv[1:5]
needs = " ".join(sys.argv[5:])
dst = os.path.join("/verif/seeded", sid)
os.makedirs(dst, exist_ok=True)
for f in ("patch.diff", "demo.py", "notes.txt"):
    if os.path.exists(os.path.join(src, f)):
        shutil.copy(os.path.join(src, f), os.path.join(dst, f))
notes = open(os.path.join(src, "notes.txt")).read() if os.path.exists(os.path.join(src, "notes.txt")) else ""
json.dump({"id": sid, "breaks_property": prop, "needs_to_manifest": needs or notes.strip()[:600],
           "confirmed": "patch applied to /repo working tree with git apply; demo.py exits 0 without and non-zero with the change; "
                        "tools/baseline.py: 425 baseline tests pass with the change; change undone with git checkout",
           "ran": "tools/try_seed.sh %s %s" % (src, prop), "detected_by": detected}, open(os.path.join(dst, "meta.json"), "w"), indent=1)
print("archived", dst)
