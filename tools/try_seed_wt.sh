#!/bin/bash
# tools/try_seed_wt.sh <seed_dir> <property id>... : the same trial as try_seed.sh, but in a scratch worktree of /repo
# (VERIF_REPO) with its own evidence / replay directories, so that several trials can run side by side and /repo stays
# untouched. The confirmation that is recorded in meta.json is still try_seed.sh (patch applied to /repo itself).
d=$(readlink -f $1); shift
n=$(basename $d)
wt=/tmp/trial_$n
out=/tmp/trial_out_$n
rm -rf $out; mkdir -p $out/evidence $out/replays
git -C /repo worktree remove --force $wt >/dev/null 2>&1
git -C /repo worktree add -f $wt HEAD >/dev/null 2>&1 || { echo "worktree failed"; exit 2; }
( cd $wt && PYTHONPATH=$wt timeout 300 /venv/bin/python $d/demo.py >/dev/null 2>&1 ); echo "demo without change: exit $?"
git -C $wt apply $d/patch.diff || { echo "patch does not apply"; git -C /repo worktree remove --force $wt; exit 2; }
( cd $wt && PYTHONPATH=$wt timeout 300 /venv/bin/python $d/demo.py >/dev/null 2>&1 ); echo "demo with change: exit $?"
if [ -z "$NOBASE" ]; then /verif/tools/baseline.py $wt | head -3; fi
for p in "$@"; do
  ( cd /verif && VERIF_REPO=$wt VERIF_EVIDENCE_DIR=$out/evidence VERIF_REPLAYS_DIR=$out/replays timeout 3000 ./check $p --tier ${TIER:-quick} ${SEED:+--seed $SEED} > $out/$p.out 2>&1; echo "check $p exit=$?"; grep -E "VIOLATION|MACHINERY|KNOWN|$p (quick|thorough)" $out/$p.out | head -4; grep -q "$p \(quick\|thorough\):" $out/$p.out || tail -3 $out/$p.out )
done
git -C /repo worktree remove --force $wt; rm -rf $wt
