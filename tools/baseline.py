#!/venv/bin/python
"""Run the repository's pinned test suite (guard OFF) and compare with /root/.vp/BASELINE.json.

usage: tools/baseline.py [repo_dir]
exit 0 iff every stable_pass test of the baseline passes.
"""
import json
import os
import subprocess
import sys
import tempfile
import xml.etree.ElementTree as ET

repo = sys.argv[1] if len(sys.argv) > 1 else "/repo"
base = json.load(open("/root/.vp/BASELINE.json"))
env = dict(os.environ)
env.pop("REATA_SQLLINEAGE_VERIF", None)
with tempfile.TemporaryDirectory() as td:
    junit = os.path.join(td, "junit.xml")
    cmd = ["/venv/bin/python", "-m", "pytest", "-q", "-p", "no:cacheprovider", "--timeout=900",
           "--continue-on-collection-errors", "-n", "8", f"--junitxml={junit}"]
    p = subprocess.run(cmd, cwd=repo, env=env, stdout=subprocess.PIPE, stderr=subprocess.STDOUT, text=True)
    passed = set()
    failed = set()
    for tc in ET.parse(junit).getroot().iter("testcase"):
        name = f"{tc.get('classname')}::{tc.get('name')}"
        bad = any(ch.tag in ("failure", "error") for ch in tc)
        skipped = any(ch.tag == "skipped" for ch in tc)
        if bad:
            failed.add(name)
        elif not skipped:
            passed.add(name)
missing = sorted(set(base["stable_pass"]) - passed)
print(f"passed={len(passed)} failed={len(failed)} baseline={len(base['stable_pass'])} missing={len(missing)}")
for m in missing[:40]:
    print("  MISSING", m)
extra_fail = sorted(failed - set(base.get("always_fail", [])))
for m in extra_fail[:40]:
    print("  NEW-FAIL", m)
sys.exit(0 if not missing else 1)
