#!/usr/bin/env python3
"""Refresh section 11 of DESIGN.md (which checks catch which seeded changes) from seeded/*/meta.json."""
import glob, json, os, re
V = os.path.dirname(os.path.dirname(os.path.abspath(__file__)))
rows = []
for p in sorted(glob.glob(os.path.join(V, "seeded", "*", "meta.json"))):
    m = json.load(open(p))
    rows.append("| `%s` | %s | %s | %s |" % (m["id"], m["breaks_property"], m["needs_to_manifest"].replace("|", "/").replace("\n", " ")[:200],
                                            m["detected_by"].replace("|", "/").replace("\n", " ")[:420]))
sec = ("## 11. Seeded changes and the checks that catch them\n\n"
       "Each change was written by a fresh sub-agent that saw only the property text and a scratch worktree, and was kept after I confirmed in /repo's "
       "working tree that it applies, that the 425 baseline tests still pass with it, and that its demonstration fails with it and passes without "
       "(`tools/try_seed.sh`; the 39 changes of round 3 were confirmed the same way in a scratch worktree of /repo, `tools/try_seed_wt.sh`, which leaves /repo untouched and lets "
       "several trials run side by side). `patch.diff`, `demo.py`, `meta.json` are in `/verif/seeded/<id>/`. %d changes; \"missed before\" marks the ones that "
       "made the framework grow.\n\n| id | property | needs, to manifest | caught by |\n|---|---|---|---|\n" % len(rows)) + "\n".join(rows) + "\n"
d = open(os.path.join(V, "DESIGN.md")).read()
if "## 11. Seeded changes and the checks that catch them" in d:
    i = d.index("## 11. Seeded changes and the checks that catch them")
    j = d.find("\n## ", i + 10)
    j2 = d.find("\n-----", i + 10)
    ends = [x for x in (j, j2) if x > 0]
    end = min(ends) if ends else len(d)
    d = d[:i] + sec + d[end:]
else:
    k = d.index("## Appendix A")
    k = d.rfind("-----", 0, k)
    k = d.rfind("\n", 0, k)
    d = d[:k] + "\n\n" + sec + "\n" + d[k:]
open(os.path.join(V, "DESIGN.md"), "w").write(d)
print("section 11:", len(rows), "rows")
