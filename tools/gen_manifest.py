#!/usr/bin/env python3
"""Regenerate /verif/MANIFEST.json from the registry below (one entry per claimed property)."""
import json
import os
import subprocess

VERIF = os.path.dirname(os.path.dirname(os.path.abspath(__file__)))
props = [json.loads(l) for l in open(os.path.join(VERIF, "properties.jsonl"))]

CLAIMS = {
    "C15": dict(
        design="5/C15, 3.5",
        technique="TLA+ model checking (TLC) of Config.tla + replay of TLC behaviours with real threads + TLC trace validation of op-level and line-level executions",
        text="TLC checks the scoped/thread-local contract on every interleaving of 2-3 threads at sub-operation granularity "
             "(identifier re-use included); every behaviour TLC prints is replayed on the real loader with real threads and each "
             "recorded execution (op-level and line-level schedules under a settrace scheduler) is decided by Trace_Config against "
             "the ideal layer only. Model checking is the right level: the property quantifies over schedules and histories.",
        note="trusted: TLC, CommunityModules JSON, the harness renderer/projection (views are real reads in the real thread); "
             "pre-emption unit is one source line of config.py; identifiers are supplied by the harness"),
    "C17": dict(
        design="5/C17, 3.6",
        technique="TLA+ model checking (TLC) of Server.tla over every path spelling + replay of every TLC-enumerated request into the real WSGI app on a scratch tree + TLC trace validation of responses",
        text="TLC enumerates every path of up to 4 (thorough 5) segments over 13 segment kinds, evaluates the containment clauses for "
             "every route x spelling on the specified gate/handlers, and prints the machine's answer per request; every such request "
             "(x root setting x file-content variant) is sent to the real application against a scratch tree with marker files; "
             "responses that differ from the machine and a random sample are decided by Trace_Server against the ideal clauses.",
        note="trusted: TLC, the scratch-tree builder and the marker/witness scan of the response (status, headers, body); no symlinks in the tree; "
             "equal-to-machine responses are accepted on the strength of O1"),
    "C03": dict(
        design="5/C03, 3.3",
        technique="TLA+ model checking (TLC) of Script.tla (machine refines the ideal relation on every history) + every TLC-enumerated history folded by the real SQLLineageHolder.of + TLC trace validation (Trace_Script) of differing, sampled and LineageRunner executions",
        text="TLC enumerates all histories of <= 3 (thorough 4) abstract statements over 3 tables incl. DROP, RENAME and two-pair RENAME, checks "
             "that the fold mechanism is accepted step by step by the ideal relation written from the statement (edge-iff, role definitions, "
             "order/repetition irrelevance, drop-only-untouched, drop-is-local, rename-removes-old, rename-in-place-when-pure), and prints the "
             "summary per history; each history is rendered, analysed and folded by the real code and compared; differing ones, a sample and "
             "longer scripts run through LineageRunner are decided by Trace_Script against the ideal relation.",
        note="trusted: TLC, the one-spelling renderer of abstract statements, the projection (public summary accessors); "
             "equal-to-machine histories are accepted on the strength of O1"),
    "C06": dict(
        design="5/C06, 3.3",
        technique="TLC evaluation of the Graph.tla invariants (Trace_Graph) on every recorded result of the real LineageRunner (corpus + scripts from TLC-simulated Script.tla histories)",
        text="Each result (graph, paths, role sets) of the real analyser on the harvested corpus and on scripts rendered from histories that "
             "TLC simulates from Script.tla is projected and evaluated by TLC against the invariants of Graph.tla (a path has a hop, is a chain "
             "of direct dependencies, starts at an unfed column, ends at a written table's column; source tables are read; the table graph "
             "connects both ends; a resolved column has one owner; nodes retrievable). The invariants relate parts of one result, so no oracle "
             "is needed; TLC is the evaluator of every clause on every observed result.",
        note="trusted: TLC, the projection harness/graph_proj.py; the graph is read through LineageRunner._sql_holder; reachability is skipped above 60 column nodes"),
    "C18": dict(
        design="5/C18, 3.3",
        technique="TLC evaluation of the Graph.tla export invariants (Trace_Graph) on every recorded result of the real LineageRunner",
        text="Both Cytoscape exports and the text summary of every recorded result are compared by TLC with the observed graph and role lists: "
             "exported nodes/edges exact, every edge endpoint and parent reference is an exported id, ids unique, the summary lists each role "
             "set once in sorted order.",
        note="trusted: TLC, the projection (incl. ranks for sorted order); the graph is read through LineageRunner._sql_holder"),
    "C05": dict(
        design="5/C05, 3.4",
        technique="TLA+ model checking (TLC) of Split.tla over every lexeme sequence + replay of every enumerated script into the real splitter / LineageRunner + TLC trace validation (Trace_Script) of script-vs-fold-of-solo-statements",
        text="TLC enumerates every script of <= 7 lexemes (bodies with semicolons inside literals/quoted identifiers, separators, line/block "
             "comments containing semicolons, blanks; T-SQL newline-only mode) and checks the splitter mechanism against Statements(script); "
             "every script <= 5 (thorough 6) lexemes is split by the real helpers, thousands run through LineageRunner (also tsql without "
             "semicolons under scoped override and environment variable); the script's table summary must be accepted by the ideal fold "
             "of Script.tla over the statements analysed alone, and its column pairs must equal those of the combined solo holders.",
        note="trusted: TLC, the lexeme renderer, sqlparse/sqlfluff as parsers; statements compared modulo comments, whitespace and trailing semicolons"),
    "C12": dict(
        design="5/C12, 3.4",
        technique="TLA+ model checking (TLC) of Pipeline.tla over interleavings of runs, providers and fault points + replay of TLC histories with real threads pre-empted per statement + TLC trace validation (Trace_Pipeline)",
        text="TLC checks, for every interleaving of 2-3 runs (scripts of create/use/unparsable/unsupported statements, own providers re-used "
             "sequentially, the shared default provider, silent mode, a provider fault on the j-th lookup), that a run's outcome and "
             "wildcard expansions equal those of the run alone on a fresh provider and that a provider's session is empty outside runs; "
             "histories printed by TLC are replayed with real LineageRunner threads released one statement at a time (pre-emption before "
             "each analyse call and before deregistration) and every recorded history is decided by Trace_Pipeline against the ideal layer.",
        note="trusted: TLC, class-level tap wrappers in the harness process, the projection of a run (exception class, target columns per statement, provider answers through its public API)"),
    "C01": dict(
        design="5/C01, 3.2",
        technique="TLA+ model checking (TLC) of Stmt.tla (program = behaviour; machine vs BaseTables/Target) + every TLC-enumerated program rendered and analysed by the real LineageRunner + TLC trace validation (Trace_Stmt re-walks the program through the spec's actions and decides the observed tables)",
        text="TLC enumerates every statement of the core grammar up to 7 (thorough 9) grammar events - joins, comma joins, derived tables, CTEs, "
             "set operations, subqueries in WHERE / select list / HAVING, nesting depth 2, every statement kind incl. noop kinds - proves the "
             "extractor-shaped machine reports exactly BaseTables/Target on the intended track, and prints each program; each is rendered to "
             "SQL, analysed by the real code and the observation is decided by Trace_Stmt (ideal first; a rejected observation is a known "
             "finding only if it equals the deviant track and every fired deviation is listed). Simulated programs reach depth 4. Also enumerated: parenthesised joins, subqueries in ON conditions "
             "and on both sides of a WHERE comparison, nested set operations, WITH in front of UPDATE / MERGE / DELETE; renderer dimensions: "
             "aliases restarting per scope, select-list subquery in ELSE / THEN / function-argument position, MERGE source named directly, "
             "derived tables with a WITH clause of their own; recursive CTEs (event selfref; without the keyword under tsql / oracle / db2); condition "
             "and select-list subqueries written as WITH queries whose second CTE reads the first; derived tables in the branches of a set operation.",
        note="trusted: TLC, sqlfluff as parser, the token renderer harness/render_stmt.py; one spelling per program here (C07/C08/C09 vary spelling, naming, dialect)"),
    "C09": dict(
        design="5/C09, 3.2",
        technique="TLA+ model checking (TLC) of Stmt.tla (dialect-free ideal) + TLC-enumerated programs rendered and analysed under every accepting sqlfluff dialect and the sqlparse analyzer + TLC trace validation (Trace_Stmt) of every (program, dialect) observation",
        text="The specification has no dialect: agreement between dialects follows from every accepting dialect conforming to the same "
             "BaseTables/Target. Programs printed by TLC (every statement kind over small bodies, sampled deeper bodies) are rendered and "
             "analysed under ansi, a rotating third (quick) / all (thorough) of the 28 installed dialects and the sqlparse analyzer; "
             "acceptance is decided by calling the sqlfluff parser directly; each observation is decided by Trace_Stmt.",
        note="trusted: TLC, sqlfluff as parser (acceptance), the renderer; SELECT INTO counted only where it creates a table (tsql, postgres, redshift, greenplum); column level across dialects is C02's sweep"),
    "C07": dict(
        design="5/C07",
        technique="TLA+ model checking (TLC) of Stmt.tla (answer is a function of the program) + every spelling variant of TLC-enumerated programs analysed by the real code + TLC trace validation (Trace_Stmt); corpus statements rewritten at lexer-token level compared with their canonical result",
        text="The abstract program has no layout: each program printed by TLC is rendered by a token-level renderer under spelling variants "
             "(block/line comments and newlines at token boundaries, keyword and identifier case, quoting of lower-case identifiers, trailing "
             "semicolons, separators, AS); a variant counts when the parser itself accepts it; each observation is decided by Trace_Stmt "
             "against the program's ideal answer. Corpus statements (no abstract program) are rewritten at lexer-token boundaries and must "
             "reproduce the canonical spelling's tables and named column pairs.",
        note="trusted: TLC, sqlfluff as parser/lexer, the token renderer; the corpus part is a direct comparison of two real results"),
    "C08": dict(
        design="5/C08",
        technique="TLA+ model checking (TLC) of Stmt.tla (ideal resolves by meaning: tbl / cteref events) + TLC-enumerated programs rendered under adversarial namings and analysed by the real code + TLC trace validation (Trace_Stmt)",
        text="The ideal layer never looks at how a local name is spelled; programs printed by TLC are rendered under alias pools (plain, "
             "adversarial = equal to other tables' bare names / schema / CTE / target / column, mixed case, quoted), fresh CTE names, table "
             "aliases on/off, AS on/off, and each observation is decided by Trace_Stmt against the naming-independent answer.",
        note="trusted: TLC, sqlfluff as parser, the renderer's validity rule for namings (exposed names pairwise distinct, CTE names fresh)"),
    "C14": dict(
        design="5/C14",
        technique="TLA+ model checking (TLC) of Stmt.tla with the default-schema variable (fallback chain, DefaultEqualsQualified) + three-way replay (scoped override, environment variable before import, textual qualification) + TLC trace validation (Trace_Stmt with ds)",
        text="Stmt.tla carries the configured default schema as a variable and proves that the report under default S equals the report of "
             "the textually qualified program; each program printed by TLC is analysed unqualified under a scoped override, unqualified with "
             "the environment variable set before the library is imported (own worker pool), and qualified as S.name with no default, for S "
             "fresh and S already used as a qualifier, plus no default at all; every observation is decided by Trace_Stmt with ds = S.",
        note="trusted: TLC, the renderer's qualify option; table level (column owners under a default schema belong to the column-level checks)"),
    "C10": dict(
        design="5/C10, 3.4",
        technique="TLA+ model checking (TLC) of Pipeline.tla (failure classes, silent skip = removal) with every single-run behaviour replayed through the real runner + TLC trace validation: Trace_Pipeline for runs, Contract.tla for every execution on seeded mutated strings",
        text="TLC checks OutcomeInContract and SilentSkipEqualsRemoval for every script of <= 4 statements (unparsable / unsupported at every "
             "position, silent on/off, provider fault) and prints every single-run behaviour, which is replayed through the real LineageRunner "
             "and decided by Trace_Pipeline. TLC does not generate arbitrary text: a seeded mutator (token delete/duplicate/swap/insert, "
             "cross-over, bracket nesting <= 30, templating/quoting metacharacters, dialect-specific statements under other dialects) drives "
             "the code with every public accessor called, and Contract.tla decides each recorded execution (no internal error escapes; "
             "unparsable text never yields a result; invalid syntax only for text the parser rejects).",
        note="trusted: TLC, sqlfluff called directly as the judge of 'cannot parse', the mutator; totality over all strings is sampled, not enumerated"),
    "C11": dict(
        design="5/C11",
        technique="TLA+ model checking (TLC) of Accessors.tla (every call sequence incl. caller-side mutation) + replay of TLC call sequences on real runners + hash-seed subprocess matrix, all recorded answers/dumps decided by TLC (Trace_Accessors)",
        text="TLC checks AccessorsIdempotentAnyOrder over every sequence of <= 3 (thorough 4) calls of 10 accessors with optional mutation of "
             "the returned object, and prints the sequences; each is replayed on a fresh real LineageRunner per script and every answer is "
             "compared by TLC with the single-call reference. The same corpus / generated scripts are dumped (every public accessor) in "
             "subprocesses started with PYTHONHASHSEED in 4 (thorough 32) seeds and TLC requires identical canonical dumps.",
        note="trusted: TLC, the canonical dump (anonymous subquery names and the order they induce are canonicalised, as the statement allows); "
             "determinism across seeds is a differential check of the code against itself - the specification contributes the accessor model"),
    "C02": dict(
        design="5/C02, 3.2, A.5",
        technique="TLA+ model checking (TLC) of Col.tla (resolution by name through the alias map = dataflow by index) + TLC-generated programs rendered under expression forms and analysed by the real code + TLC trace validation (Trace_Col re-takes the program's build steps through the spec's actions and compares the observed pairs with Flow)",
        text="Col.tla builds a data-moving statement (tables and derived tables in one FROM scope, items over 0-2 references by INDEX, "
             "wildcards, explicit column list, UNION ALL branch, metadata knowledge) and defines Flow by index; TLC proves that resolving the "
             "rendered qualifiers BY NAME through the alias map (intended precedence) yields Flow for every valid program, and prints the "
             "programs; each is rendered (expression forms: function, cast, case, arithmetic, window, parenthesised, nested; join styles) and the "
             "(source, target) pairs the real analyser reports are decided by Trace_Col. Statement kinds: INSERT, INSERT with column list, CREATE TABLE AS, UPDATE ... FROM, MERGE (both arms); references also to a scalar subquery, to count(*) and through a qualifier that names nothing in scope; half of the items are rendered as random expression trees of depth <= 3.",
        note="trusted: TLC, sqlfluff as parser, the renderer harness/render_col.py; one FROM scope with derived tables one level deep (deeper nesting is Stmt.tla's table-level business); expression forms are enumerated by the renderer"),
    "C13": dict(
        design="5/C13, 3.2",
        technique="TLA+ model checking (TLC) of Col.tla with metadata knowledge (every known/unknown assignment) + TLC-generated programs analysed with the dict provider, SQLAlchemy on in-memory sqlite and without provider + TLC trace validation (Trace_Col incl. the with/without-metadata table clause)",
        text="Col.tla carries which tables (and whether the INSERT target) the provider knows; Flow defines wildcard expansion to exactly the "
             "known columns, attribution of unqualified columns to exactly the in-scope tables listing them, target positions named by a known "
             "target, and the explicit column list winning; TLC enumerates every assignment and prints the programs; each is analysed with "
             "DummyMetaDataProvider, with SQLAlchemyMetaDataProvider on an in-memory sqlite holding the same knowledge, and without any "
             "provider (= the program with the knowledge erased); each observation incl. 'table lineage equals the one without metadata' is "
             "decided by Trace_Col. Also: a column listed by the metadata of several in-scope tables, count(*) next to an expanded wildcard, a parenthesised source query, CREATE TABLE AS into a known target; lateral column alias references "
             "(reference kind Lat, configuration key on / off, provider given / not given, the name known / not known as a column of a relation in scope).",
        note="trusted: TLC, the renderer, sqlite as the database behind the SQLAlchemy provider; knowledge: s.a(c,d), s.b(c,e), target t1..tn"),
    "C16": dict(
        design="5/C16, 3.1",
        technique="TLA+ model checking (TLC) of Names.tla (normaliser applied once at every position) + every TLC-enumerated (spelling, position) pair rendered and analysed under the dialect admitting its quote style + TLC trace validation (Trace_Names)",
        text="Names.tla models identifier parts (case pattern x unquoted / double quotes / backticks / square brackets, 1-3 parts), the "
             "normaliser and the syntactic positions that establish and look up a name (target -> later FROM, select alias and INSERT column "
             "list -> later column reference, alias definition -> qualifier, FROM -> FROM, FROM -> the table's name as column qualifier; quoted names containing a dot); TLC proves that entities found again are exactly "
             "the equal ones when every position normalises once, finds the double normalisation as a deviation, and prints every case; "
             "each is rendered into one- and two-statement scripts and both the printed names and 'the read finds what the write "
             "established' are decided by Trace_Names.",
        note="trusted: TLC, the spelling renderer, the case-per-part projection of printed names; one quote style per name"),
    "C04": dict(
        design="5/C04, 3.3",
        technique="TLA+ model checking (TLC) of Chain.tla (end-to-end pairs = composition of per-statement flows; session knowledge of earlier targets) + every TLC-enumerated script run through the real LineageRunner with and without a provider + TLC trace validation (Trace_Chain re-takes the statements through the spec's actions)",
        text="Chain.tla builds scripts of 2-4 statements (explicit, renamed, two-source expression, SELECT *, unqualified-in-a-join), each "
             "writing the next target and reading the base table or any earlier target, tracks the columns the script establishes for every "
             "table (what the run's session holds) and defines EndToEnd as the relational composition of the flows; TLC checks that unconsumed "
             "columns end at intermediates and prints every script; each is rendered and run with a truthy provider and without one, and the "
             "observed (first, last) pairs are decided by Trace_Chain. Renderings: INSERT, through a derived table every statement calls q, CREATE TABLE AS with a catalog that lists a stale layout of every target.",
        note="trusted: TLC, the script renderer; the provider in use knows only an unrelated table (truthy); full paths' shape is C06's business"),
}

NOT_YET = "check not built yet in this round; planned as described in DESIGN.md section 5"


def main():
    checks = []
    for p in props:
        pid = p["id"]
        if pid not in CLAIMS:
            continue
        c = CLAIMS[pid]
        checks.append({
            "property_id": pid,
            "quick_cmd": "./check %s --tier quick" % pid,
            "thorough_cmd": "./check %s --tier thorough" % pid,
            "evidence_file": "/verif/evidence/%s.json" % pid,
            "replay_cmd_template": "./check %s --replay {path}" % pid,
            "engine": "tlc+harness",
            "level_claimed": {"category": "model_checking", "text": c["text"], "design_ref": c["design"]},
            "level_note": c["note"],
            "technique": c["technique"],
        })
    hooks_commits = []
    m = {
        "version": 1,
        "setup_cmd": "cd /verif && ./setup.sh",
        "hooks": {
            "guard": "REATA_SQLLINEAGE_VERIF",
            "enable": "no source hooks: the harness taps the public API from outside (recording provider subclass, "
                      "sys.settrace scheduler, get_ident substitution); ./check sets REATA_SQLLINEAGE_VERIF=1 for its own wrappers only",
            "baseline_off_cmd": "cd /verif && tools/baseline.py /repo",
            "source_commits": hooks_commits,
            "add_only": True,
        },
        "engines": [{"name": "tlc+harness", "path": "/verif/check",
                     "serves_properties": [c["property_id"] for c in checks],
                     "kind_free_text": "TLC 1.8 model checking and batch trace validation of the TLA+ modules in /verif/spec, "
                                       "driven by the Python harness in /verif/harness against /repo's working tree"}],
        "checks": checks,
        "not_applicable": [{"property_id": p["id"], "reason": NOT_YET} for p in props if p["id"] not in CLAIMS],
        "notes": "Known findings: /verif/known_findings.json. Seeded changes used to test the checks: /verif/seeded. "
                 "fix: commits in /repo are recorded in known_findings.json with status fixed.",
    }
    with open(os.path.join(VERIF, "MANIFEST.json"), "w") as f:
        json.dump(m, f, indent=1)
    print("MANIFEST.json: %d checks, %d not claimed" % (len(checks), len(m["not_applicable"])))


if __name__ == "__main__":
    main()
