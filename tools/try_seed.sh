#!/bin/bash
# tools/try_seed.sh <seed_dir> <property id>... : apply the seeded change to /repo, confirm demo + suite, run the checks, revert.
d=$1; shift
cd /repo || exit 2
git diff --quiet || { echo "/repo not clean"; exit 2; }
cp $d/demo.py /tmp/_demo.py
( cd /repo && PYTHONPATH=/repo timeout 300 /venv/bin/python /tmp/_demo.py >/dev/null 2>&1 ); echo "demo without change: exit $?"
git apply $d/patch.diff || { echo "patch does not apply"; exit 2; }
( cd /repo && PYTHONPATH=/repo timeout 300 /venv/bin/python /tmp/_demo.py >/dev/null 2>&1 ); echo "demo with change: exit $?"
/verif/tools/baseline.py | head -3
for p in "$@"; do
  ( cd /verif && timeout 3000 ./check $p --tier ${TIER:-quick} 2>&1 | grep -E "VIOLATION|MACHINERY|KNOWN|$p (quick|thorough)" | head -4 )
done
git -C /repo checkout -- . ; git -C /repo status --short | head -3
