#!/usr/bin/env python3
"""tools/findings_table.py: refresh DESIGN.md section 12 (a table of known_findings.json)"""
import json, re
kf = json.load(open("/verif/known_findings.json"))["findings"]
rows = []
for e in sorted(kf, key=lambda e: (e["id"].split("-")[1], e["status"] != "known", int(re.sub(r"\D", "", e["id"].split("-")[2]) or 0), e["id"])):
    what = e["what"].replace("|", "/").replace("\n", " ")
    if len(what) > 230:
        what = what[:227] + "..."
    rows.append("| %s | %s | %s | %s |" % (e["id"], ", ".join(e["properties"]), "known" if e["status"] == "known" else "fixed `%s`" % e.get("commit", "?"), what))
known = sum(1 for e in kf if e["status"] == "known")
text = ("## 12. Findings (generated from `known_findings.json`)\n\n"
        "%d genuine defects of the unchanged tree: %d repaired by a minimal `fix:` commit in /repo (the suite stays green, the entry suppresses "
        "nothing), %d listed as known (the check prints `KNOWN-FINDING:` for exactly what the entry's predicate identifies and reports "
        "anything else). Witnesses, predicates and the reason a known finding is not repaired are in the file.\n\n"
        "| id | properties | status | what |\n|---|---|---|---|\n" % (len(kf), len(kf) - known, known) + "\n".join(rows) + "\n\n")
s = open("/verif/DESIGN.md").read()
m = re.search(r"^## 12\. Findings.*?(?=^## Appendix A)", s, re.S | re.M)
if m:
    s = s[:m.start()] + text + s[m.end():]
else:
    i = s.index("## Appendix A")
    s = s[:i] + text + s[i:]
open("/verif/DESIGN.md", "w").write(s)
print("section 12: %d findings (%d known)" % (len(kf), known))
