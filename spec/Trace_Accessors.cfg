SPECIFICATION TSpec
CONSTANTS
  Accs = {"source"}
  MaxCalls = 0
  Known = {}
  Emit = FALSE
INVARIANT Report
CHECK_DEADLOCK FALSE
