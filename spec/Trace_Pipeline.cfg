SPECIFICATION TSpec
CONSTANTS
  Runs = {"r1", "r2", "r3"}
  Provs = {"p1", "p2", "dflt"}
  MaxStmts = 0
  Known = {}
  Emit = FALSE
  Kinds = {}
  MaxFault = 0
  Record = FALSE
  Dias = {"ansi", "tsql_ns"}
INVARIANT Report
CHECK_DEADLOCK FALSE
