------------------------------ MODULE Pipeline ------------------------------
(***************************************************************************)
(* S4b - one analysis run as a process: split, enter the provider session, *)
(* per statement analyse / look up / register, assemble, leave the session *)
(* (runner.py:_eval, metadata_provider.py), C12 (isolation), C10 (silent   *)
(* mode, failure classes), C04 (what a statement teaches the session).     *)
(*                                                                         *)
(* Abstract statements of a run's script:                                  *)
(*   mk1   CREATE TABLE tmp AS SELECT a1, a2 FROM src   teaches tmp=<<a1,a2>>*)
(*   mk2   CREATE TABLE tmp AS SELECT b1 FROM src       teaches tmp=<<b1>> *)
(*   use   INSERT INTO out SELECT * FROM tmp            looks tmp up        *)
(*   bad   text the parser rejects                      InvalidSyntax       *)
(*   unsup a statement type without extractor           Unsupported / skip *)
(*   dial  SELECT a1 INTO outd FROM src: a statement only the tsql grammar *)
(*         accepts; a run is analysed under "ansi" or under "tsql_ns"      *)
(*         (T-SQL without semicolons: the script is split by the parser)   *)
(* Providers: own providers p1 (knows src only) and p2 (also knows tmp as  *)
(* <<z1>>), both truthy, and the shared default "dflt" (falsy: never read).*)
(*                                                                         *)
(* Machine: Begin, Analyze (-> Lookup | Register | Fail | Skip), Exit       *)
(* (deregister, on every path), Probe.  Runs interleave at these steps.    *)
(* Ideal:  Solo(script, p, silent, fault) - the run on a fresh provider in *)
(* a fresh process; the session of a provider is empty outside runs.       *)
(* Deviations (expected-fail self tests): D_NO_DEREGISTER_ON_ERROR,        *)
(* D_SESSION_AFTER_BASE, D_TRUTHY_DEFAULT, D_SILENT_ABORTS,                *)
(* D_SHARED_PARSE_CACHE.                                                   *)
(***************************************************************************)
EXTENDS Naturals, Sequences, FiniteSets, TLC, Json

CONSTANTS Runs, Provs, MaxStmts, Known, Emit, Kinds, MaxFault, Record, Dias

None == "none"
Star == <<"*">>
Cols(k) == IF k = "mk1" THEN <<"a1", "a2">> ELSE <<"b1">>
NoCols == <<>>
Base(p) == IF p = "p2" THEN <<"z1">> ELSE NoCols           \* what the provider itself knows about tmp
Truthy(p) == p # "dflt" \/ "D_TRUTHY_DEFAULT" \in Known
Scripts == UNION {[1..n -> Kinds] : n \in 1..MaxStmts}

VARIABLES sess,   \* provider -> columns of tmp registered in its session, or None
          run,    \* run -> record
          pcache, \* statement texts whose tsql parse is cached - per analyser, i.e. per run (shared under D_SHARED_PARSE_CACHE)
          log     \* history: events in the order they happened
vars == <<sess, run, pcache, log>>

New == [st |-> "new", p |-> None, script |-> <<>>, silent |-> FALSE, fault |-> 0, dia |-> "ansi", k |-> 1, seen |-> <<>>,
        outcome |-> None, lookups |-> 0, warnings |-> 0]

\* ---------------------------------------------------------------- ideal: the run alone on a fresh provider
RECURSIVE SoloFrom(_, _, _, _, _, _, _, _, _)
SoloFrom(script, p, silent, fault, k, local, seen, lookups, dia) ==
   IF k > Len(script) THEN [outcome |-> "ok", seen |-> seen]
   ELSE LET s == script[k] IN
        CASE s \in {"mk1", "mk2"} -> SoloFrom(script, p, silent, fault, k + 1, Cols(s), seen, lookups, dia)
          [] s = "use" -> IF p = "dflt" THEN SoloFrom(script, p, silent, fault, k + 1, local, Append(seen, Star), lookups, dia)
                          ELSE IF lookups + 1 = fault THEN [outcome |-> "ProviderFault", seen |-> <<>>]
                          ELSE LET a == IF local # NoCols THEN local ELSE IF Base(p) # NoCols THEN Base(p) ELSE Star IN
                               SoloFrom(script, p, silent, fault, k + 1, local, Append(seen, a), lookups + 1, dia)
          [] s = "bad" -> [outcome |-> "InvalidSyntaxException", seen |-> <<>>]      \* a failed run shows nothing but its exception
          [] s = "dial" -> IF dia = "tsql_ns" THEN SoloFrom(script, p, silent, fault, k + 1, local, Append(seen, <<"into">>), lookups, dia)
                           ELSE [outcome |-> "InvalidSyntaxException", seen |-> <<>>]
          [] s = "unsup" -> IF silent THEN SoloFrom(script, p, silent, fault, k + 1, local, seen, lookups, dia)
                            ELSE [outcome |-> "UnsupportedStatementException", seen |-> <<>>]
Solo(script, p, silent, fault, dia) == SoloFrom(script, p, silent, fault, 1, NoCols, <<>>, 0, dia)
WithoutUnsup(script) == SelectSeq(script, LAMBDA s : s # "unsup")

\* ---------------------------------------------------------------- machine
Running(p) == {r \in Runs : run[r].st \in {"running", "leaving"} /\ run[r].p = p}
Ev(r, e, a) == [r |-> r, e |-> e, a |-> a]
Log(e) == IF Record THEN Append(log, e) ELSE log
Init == sess = [p \in Provs |-> NoCols] /\ run = [r \in Runs |-> New] /\ log = <<>> /\ pcache = {}
\* a run enters the session of its provider; concurrent runs have their own providers (the shared default excepted)
Begin(r) == /\ run[r].st = "new"
            /\ \E p \in Provs, sc \in Scripts, silent \in BOOLEAN, f \in 0..MaxFault, dia \in Dias :
                 /\ (p # "dflt" => Running(p) = {})
                 /\ (f > 0 => p # "dflt")
                 /\ (dia = "tsql_ns" => (~silent /\ \A i \in DOMAIN sc : sc[i] \notin {"bad", "unsup"}))   \* the whole script must parse to be split
                 /\ run' = [run EXCEPT ![r] = [New EXCEPT !.st = "running", !.p = p, !.script = sc, !.silent = silent, !.fault = f, !.dia = dia]]
                 /\ log' = Log([r |-> r, e |-> "begin", p |-> p, script |-> sc, silent |-> silent, fault |-> f, dia |-> dia])
                 \* splitting a T-SQL script without semicolons parses it once and caches every statement's parse
                 /\ pcache' = IF dia = "tsql_ns" /\ "D_SHARED_PARSE_CACHE" \in Known THEN pcache \cup {sc[i] : i \in DOMAIN sc} ELSE pcache
            /\ UNCHANGED sess
Finish(rr, outcome) == [rr EXCEPT !.st = "leaving", !.outcome = outcome, !.seen = IF outcome = "ok" THEN @ ELSE <<>>]
\* one statement: analyse it (lookups happen inside), then register what it teaches
StepOf(r) ==
   LET rr == run[r]  p == rr.p IN
   IF rr.k > Len(rr.script) THEN [run |-> Finish(rr, "ok"), sess |-> sess[p]]
   ELSE LET s == rr.script[rr.k] IN
        CASE s \in {"mk1", "mk2"} -> [run |-> [rr EXCEPT !.k = @ + 1], sess |-> Cols(s)]                 \* Register
          [] s = "use" ->
               IF ~Truthy(p) THEN [run |-> [rr EXCEPT !.k = @ + 1, !.seen = Append(@, Star)], sess |-> sess[p]]
               ELSE IF rr.lookups + 1 = rr.fault THEN [run |-> Finish(rr, "ProviderFault"), sess |-> sess[p]]
               ELSE LET a == IF "D_SESSION_AFTER_BASE" \in Known
                             THEN (IF Base(p) # NoCols THEN Base(p) ELSE IF sess[p] # NoCols THEN sess[p] ELSE Star)
                             ELSE (IF sess[p] # NoCols THEN sess[p] ELSE IF Base(p) # NoCols THEN Base(p) ELSE Star) IN
                    [run |-> [rr EXCEPT !.k = @ + 1, !.seen = Append(@, a), !.lookups = @ + 1], sess |-> sess[p]]
          [] s = "dial" -> IF rr.dia = "tsql_ns" \/ "dial" \in pcache     \* a cached tsql parse is served whatever the dialect
                           THEN [run |-> [rr EXCEPT !.k = @ + 1, !.seen = Append(@, <<"into">>)], sess |-> sess[p]]
                           ELSE [run |-> Finish(rr, "InvalidSyntaxException"), sess |-> sess[p]]
          [] s = "bad" -> [run |-> Finish(rr, "InvalidSyntaxException"), sess |-> sess[p]]
          [] s = "unsup" ->
               IF rr.silent /\ "D_SILENT_ABORTS" \notin Known
               THEN [run |-> [rr EXCEPT !.k = @ + 1, !.warnings = @ + 1], sess |-> sess[p]]
               ELSE [run |-> Finish(rr, "UnsupportedStatementException"), sess |-> sess[p]]
Analyze(r) == /\ run[r].st = "running"
              /\ LET n == StepOf(r) IN
                 /\ run' = [run EXCEPT ![r] = n.run]
                 /\ sess' = [sess EXCEPT ![run[r].p] = n.sess]
                 /\ UNCHANGED pcache
                 /\ log' = Log([r |-> r, e |-> "step", k |-> run[r].k, answers |-> [p \in Provs |-> IF sess'[p] # NoCols THEN sess'[p] ELSE IF Base(p) # NoCols THEN Base(p) ELSE Star]])
\* leaving the session deregisters - on every path
Exit(r) == /\ run[r].st = "leaving"
           /\ sess' = IF "D_NO_DEREGISTER_ON_ERROR" \in Known /\ run[r].outcome # "ok" THEN sess ELSE [sess EXCEPT ![run[r].p] = NoCols]
           /\ run' = [run EXCEPT ![r].st = "exited"] /\ UNCHANGED pcache
           /\ log' = Log([r |-> r, e |-> "exit", outcome |-> run[r].outcome, seen |-> run[r].seen, warnings |-> run[r].warnings,
                          answers |-> [p \in Provs |-> IF sess'[p] # NoCols THEN sess'[p] ELSE IF Base(p) # NoCols THEN Base(p) ELSE Star]])
Next == \E r \in Runs : Begin(r) \/ Analyze(r) \/ Exit(r)
Spec == Init /\ [][Next]_vars

\* ---------------------------------------------------------------- properties
SessionEmptyOutsideRuns == \A p \in Provs : ({r \in Runs : run[r].st \in {"running", "leaving"} /\ run[r].p = p} = {}) => sess[p] = NoCols
ResultIndependentOfHistory ==
   \A r \in Runs : run[r].st \in {"leaving", "exited"} =>
       LET i == Solo(run[r].script, run[r].p, run[r].silent, run[r].fault, run[r].dia) IN run[r].outcome = i.outcome /\ run[r].seen = i.seen
ReusedProviderAnswersAsFresh ==     \* what a provider answers outside runs is what it knows itself
   \A p \in Provs : ({r \in Runs : run[r].st \in {"running", "leaving"} /\ run[r].p = p} = {}) =>
       (IF sess[p] # NoCols THEN sess[p] ELSE Base(p)) = Base(p)
OutcomeInContract == \A r \in Runs : run[r].outcome \in {None, "ok", "InvalidSyntaxException", "UnsupportedStatementException", "ProviderFault"}
SilentSkipEqualsRemoval ==
   \A r \in Runs : (run[r].st \in {"leaving", "exited"} /\ run[r].silent) =>
       LET i == Solo(WithoutUnsup(run[r].script), run[r].p, FALSE, run[r].fault, run[r].dia) IN
       /\ run[r].outcome = i.outcome /\ run[r].seen = i.seen
       /\ (run[r].outcome = "ok" => run[r].warnings = Len(run[r].script) - Len(WithoutUnsup(run[r].script)))

AllExited == \A r \in Runs : run[r].st = "exited"
EmitCase == (Emit /\ AllExited) => PrintT(<<"CASE", ToJson([log |-> log])>>)
=============================================================================
