---------------------------- MODULE Trace_Script ----------------------------
(***************************************************************************)
(* Trace validation for C03 (and the fold part of C05/C11): a trace is a   *)
(* script seen as events  compose(k) = the facts observed on the real      *)
(* per-statement holder k (reads, write, drop, rename pairs) together with *)
(* the public summary observed after folding the first k statements with   *)
(* the real SQLLineageHolder.of (last event: the summary LineageRunner     *)
(* itself reports).  Each step must be accepted by Script!IdealStep.       *)
(***************************************************************************)
EXTENDS Script, IOUtils
Traces == JsonDeserialize(IOEnv.TRACE_FILE)
VARIABLES tid, l, verdict
ToSet(s) == {s[i] : i \in DOMAIN s}
NoTables == <<>>
T == Traces[tid]
Stmt(e) == [k |-> e.k, r |-> ToSet(e.r), w |-> e.w, t |-> e.t, pairs |-> [i \in DOMAIN e.pairs |-> <<e.pairs[i][1], e.pairs[i][2]>>], cl |-> FALSE]
Obs(o) == [e |-> {<<x[1], x[2]>> : x \in ToSet(o.e)}, s |-> ToSet(o.s), t |-> ToSet(o.t), i |-> ToSet(o.i), x |-> o.x]
TInit == /\ tid \in 1..Len(Traces) /\ l = 1 /\ verdict = "run"
         /\ hist = <<>> /\ nodes = <<>> /\ attr = <<>> /\ anch = {} /\ edges = {} /\ crashed = FALSE
         /\ ideal = [st |-> Ideal0, ok |-> "ok"]
TNext == /\ verdict = "run"
         /\ IF l > Len(T.h)
            THEN verdict' = "ok" /\ UNCHANGED <<l, ideal>>
            ELSE LET e == T.h[l]
                     o == Obs(T.obs[l])
                     r == IF e.k \in {"rw", "drop", "ren"} THEN IdealStep(ideal.st, Stmt(e), e.ordered, o)
                          ELSE [ok |-> "ok", st |-> [ideal.st EXCEPT !.exact = FALSE, !.prev = o]] IN   \* statement outside the model
                 IF r.ok # "ok" THEN verdict' = r.ok /\ UNCHANGED <<l, ideal>>
                 ELSE verdict' = "run" /\ l' = l + 1 /\ ideal' = r
         /\ UNCHANGED <<tid, hist, nodes, attr, anch, edges, crashed>>
TSpec == TInit /\ [][TNext]_<<vars, tid, l, verdict>>
Report == verdict # "run" => PrintT(<<"VERDICT", tid, l, verdict>>)
=============================================================================
