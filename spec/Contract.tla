------------------------------ MODULE Contract ------------------------------
(***************************************************************************)
(* Trace validation for the error contract of C10.  One trace = one input  *)
(* text analysed under one dialect:                                        *)
(*   parse(k, ok)   statement k of the text, as split by the library, was  *)
(*                  handed to the parser called directly: accepted or not  *)
(*   outcome(class, library)  what escaped LineageRunner when every public *)
(*                  accessor was called: "ok" or an exception class, and   *)
(*                  whether that class derives from SQLLineageException    *)
(* The state machine is Pipeline.tla's per-statement loop seen from the    *)
(* outside: the first statement that fails decides the outcome.            *)
(* Clauses: internal_error_escaped, unparsable_text_returned_a_result,     *)
(* invalid_syntax_for_parsable_text.                                       *)
(***************************************************************************)
EXTENDS Naturals, Sequences, FiniteSets, TLC, Json, IOUtils
Traces == JsonDeserialize(IOEnv.TRACE_FILE)
VARIABLES tid, l, firstbad, verdict
T == Traces[tid]
Init == tid \in 1..Len(Traces) /\ l = 1 /\ firstbad = 0 /\ verdict = "run"
Final == IF T.outcome = "ok"
         THEN (IF firstbad > 0 THEN "unparsable_text_returned_a_result" ELSE "ok")
         ELSE IF ~T.library THEN "internal_error_escaped"
         ELSE IF T.outcome = "InvalidSyntaxException" /\ firstbad = 0 /\ Len(T.parse) > 0 THEN "invalid_syntax_for_parsable_text"
         ELSE "ok"
Next == /\ verdict = "run"
        /\ IF l <= Len(T.parse)
           THEN /\ firstbad' = IF firstbad = 0 /\ ~T.parse[l] THEN l ELSE firstbad      \* event parse(l, ok)
                /\ l' = l + 1 /\ UNCHANGED verdict
           ELSE verdict' = Final /\ UNCHANGED <<l, firstbad>>                             \* event outcome
        /\ UNCHANGED tid
Spec == Init /\ [][Next]_<<tid, l, firstbad, verdict>>
Report == verdict # "run" => PrintT(<<"VERDICT", tid, l, verdict>>)
=============================================================================
