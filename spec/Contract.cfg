SPECIFICATION Spec
INVARIANT Report
CHECK_DEADLOCK FALSE
