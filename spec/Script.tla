------------------------------- MODULE Script -------------------------------
(***************************************************************************)
(* S3 - the statement fold SQLLineageHolder._build_digraph at table level  *)
(* (C03; C05/C11 use it as the definition of "combination of statements"). *)
(*                                                                         *)
(* Abstract statements:  rw(R, W)   reads the tables R, writes W (or none) *)
(*                       drop(t)    DROP TABLE t                            *)
(*                       ren(pairs) RENAME x1 TO y1 [, x2 TO y2]           *)
(*                                                                         *)
(* Machine layer - one action per step of the fold, shaped like the code:  *)
(*   Compose   nodes of the statement's graph are appended in order        *)
(*             (written table first, then the read tables)                  *)
(*   Drop      remove iff present and total degree 0; the degree counts    *)
(*             has_alias / has_column edges ("anch") as well                *)
(*   Rename    relabel x to y: y takes the earlier position, the node       *)
(*             attributes of whichever of x, y was inserted later replace  *)
(*             the other's wholesale, every edge among {x,y} becomes the   *)
(*             self loop y->y and is removed, an isolated y is deleted      *)
(*   TagSourceOnly / TagTargetOnly / AddEdges                               *)
(* Deviation D_RENAME_SET_ORDER (the code before the fix): the RENAME      *)
(* statement's own graph is composed in, the pairs are processed in set    *)
(* order and the self-loop removal is unconditional (graph error).         *)
(*                                                                         *)
(* Ideal layer - the statement of C03 as an acceptance relation on         *)
(* (ideal state, statement, observed summary): IdealStep.                  *)
(***************************************************************************)
EXTENDS Naturals, Sequences, FiniteSets, TLC, Json

CONSTANTS TableSeq, MaxLen, MaxPairs, Known, Emit, ColumnLess

Tables == {TableSeq[i] : i \in DOMAIN TableSeq}

None == "none"
\* cl = TRUE: the statement moves no named column (INSERT INTO w SELECT 1 FROM r): the written table gets no column edges
RwStmts == {[k |-> "rw", r |-> R, w |-> w, t |-> None, pairs |-> <<>>, cl |-> cl] :
               R \in SUBSET Tables, w \in Tables \cup {None}, cl \in (IF ColumnLess THEN BOOLEAN ELSE {FALSE})}
DropStmts == {[k |-> "drop", r |-> {}, w |-> None, t |-> t, pairs |-> <<>>, cl |-> FALSE] : t \in Tables}
Pairs1 == {<<x, y>> : x \in Tables, y \in Tables}
RenStmts == {[k |-> "ren", r |-> {}, w |-> None, t |-> None, pairs |-> <<p>>, cl |-> FALSE] : p \in {q \in Pairs1 : q[1] # q[2]}}
            \cup (IF MaxPairs >= 2
                  THEN {[k |-> "ren", r |-> {}, w |-> None, t |-> None, pairs |-> <<p, q>>, cl |-> FALSE] :
                           p \in {z \in Pairs1 : z[1] # z[2]}, q \in {z \in Pairs1 : z[1] # z[2]}}
                  ELSE {})
\* two pairs of one statement never rename the same table twice and never rename two tables to one name
ValidStmt(s) == /\ (s.k = "rw" => (s.r # {} \/ s.w # None))
                /\ (s.k = "rw" /\ s.cl => s.r # {})
                /\ (s.k = "ren" /\ Len(s.pairs) = 2 => (s.pairs[1][1] # s.pairs[2][1] /\ s.pairs[1][2] # s.pairs[2][2]))
Stmts == {s \in RwStmts \cup DropStmts \cup RenStmts : ValidStmt(s)}

(***************************************************************************)
(* Machine state                                                           *)
(***************************************************************************)
VARIABLES hist,    \* the statements folded so far (the input)
          nodes,   \* Seq(Tables): table nodes of the combined graph in insertion order
          attr,    \* [Tables -> SUBSET {"so","to"}]: SOURCE_ONLY / TARGET_ONLY marks of the node
          anch,    \* tables that have has_alias / has_column edges (they count in the degree)
          edges,   \* table -> table edges
          crashed, \* the fold raised a graph-library error (only under D_RENAME_SET_ORDER)
          ideal    \* ghost: the ideal layer's own state, advanced by IdealStep on the machine's summary
vars == <<hist, nodes, attr, anch, edges, crashed, ideal>>

InSeq(s, x) == \E i \in DOMAIN s : s[i] = x
Pos(s, x) == CHOOSE i \in DOMAIN s : s[i] = x
RECURSIVE AppendNew(_, _)
AppendNew(s, xs) == IF xs = <<>> THEN s ELSE AppendNew(IF InSeq(s, Head(xs)) THEN s ELSE Append(s, Head(xs)), Tail(xs))
SetToSeq(S) == SelectSeq(TableSeq, LAMBDA t : t \in S)      \* the fixed order the renderer writes names in
Deg(t, E, A) == Cardinality({e \in E : e[1] = t}) + Cardinality({e \in E : e[2] = t}) + (IF t \in A THEN 1 ELSE 0)
RemoveNode(s, x) == SelectSeq(s, LAMBDA z : z # x)

M == [nodes |-> nodes, attr |-> attr, anch |-> anch, edges |-> edges, crashed |-> crashed]

\* ---- one read/write statement
ComposeRW(m, s, order) ==
   LET W == IF s.w = None THEN <<>> ELSE <<s.w>> IN
   [m EXCEPT !.nodes = AppendNew(@, W \o order),
             !.anch = @ \cup s.r \cup (IF s.r # {} /\ s.w # None /\ ~s.cl THEN {s.w} ELSE {})]
TagOrEdges(m, s) ==
   IF s.r # {} /\ s.w = None THEN [m EXCEPT !.attr = [t \in Tables |-> IF t \in s.r THEN @[t] \cup {"so"} ELSE @[t]]]
   ELSE IF s.r = {} /\ s.w # None THEN [m EXCEPT !.attr[s.w] = @ \cup {"to"}]
   ELSE [m EXCEPT !.edges = @ \cup (s.r \X {s.w})]
\* ---- DROP
DoDrop(m, t) ==
   LET m1 == [m EXCEPT !.nodes = AppendNew(@, <<t>>)] IN
   IF Deg(t, m1.edges, m1.anch) = 0
   THEN [m1 EXCEPT !.nodes = RemoveNode(@, t), !.attr[t] = {}]
   ELSE m1
\* ---- RENAME.  Intended mechanism: the pairs are relabelled in statement order on the graph as it is.
\* Under D_RENAME_SET_ORDER the statement's rename edges are in the graph while relabelling, the pairs come in set
\* order, and after each relabel the self loop y->y is removed unconditionally (graph error when there is none).
Rel(x, y, n) == IF n = x THEN y ELSE n
RelabelPair(m, x, y, old) ==
   LET hx == InSeq(m.nodes, x)
       hy == InSeq(m.nodes, y)
       px == IF hx THEN Pos(m.nodes, x) ELSE 0
       py == IF hy THEN Pos(m.nodes, y) ELSE 0
       later == IF px > py THEN x ELSE y            \* attributes of the node inserted later win wholesale
       cut == IF px > py THEN px ELSE py             \* y keeps the earlier of the two positions
       mapped == [i \in DOMAIN m.nodes |-> Rel(x, y, m.nodes[i])]
       ns == IF hx /\ hy THEN [i \in 1..(Len(m.nodes) - 1) |-> IF i < cut THEN mapped[i] ELSE mapped[i + 1]] ELSE mapped
       E1 == {<<Rel(x, y, e[1]), Rel(x, y, e[2])>> : e \in m.edges}
       E2 == IF old THEN E1 \ {<<y, y>>} ELSE E1
       A2 == {Rel(x, y, t) : t \in m.anch}
       m2 == IF ~hx THEN [m EXCEPT !.edges = IF old THEN @ \ {<<y, y>>} ELSE @]      \* relabelling an absent node changes nothing
             ELSE [m EXCEPT !.nodes = ns,
                            !.attr = [t \in Tables |-> IF t = y THEN m.attr[later] ELSE IF t = x THEN {} ELSE @[t]],
                            !.edges = E2, !.anch = A2]
       yIn == InSeq(m2.nodes, y) IN
   IF old /\ (<<y, y>> \notin (IF hx THEN E1 ELSE m.edges) \/ ~yIn) THEN [m EXCEPT !.crashed = TRUE]
   ELSE IF yIn /\ Deg(y, m2.edges, m2.anch) = 0 THEN [m2 EXCEPT !.nodes = RemoveNode(@, y), !.attr[y] = {}]
   ELSE m2
RECURSIVE DoPairs(_, _, _)
DoPairs(m, ps, old) == IF ps = <<>> \/ m.crashed THEN m
                       ELSE DoPairs(RelabelPair(m, ps[1][1], ps[1][2], old), Tail(ps), old)
\* before the fix, compose added x1, y1, x2, y2 (the new ones, in this order) and the rename edges; the intended
\* mechanism does not compose a RENAME statement's graph at all: its edges are instructions, not lineage
ComposeRen(m, ps, old) ==
   LET flat == IF Len(ps) = 1 THEN <<ps[1][1], ps[1][2]>> ELSE <<ps[1][1], ps[1][2], ps[2][1], ps[2][2]>>
       re == {<<ps[i][1], ps[i][2]>> : i \in DOMAIN ps} IN
   IF old THEN [m EXCEPT !.nodes = AppendNew(@, flat), !.edges = @ \cup re] ELSE m
OldRename == "D_RENAME_SET_ORDER" \in Known
Orders(ps) == IF Len(ps) = 2 /\ OldRename THEN {ps, <<ps[2], ps[1]>>} ELSE {ps}

\* the read tables enter the graph in the order the FROM clause names them; the renderer writes them sorted
ReadOrders(R) == {SetToSeq(R)}

Apply(m, s, order, pord) ==
   CASE s.k = "rw" -> TagOrEdges(ComposeRW(m, s, order), s)
     [] s.k = "drop" -> DoDrop(m, s.t)
     [] s.k = "ren" -> DoPairs(ComposeRen(m, s.pairs, OldRename), pord, OldRename)

(***************************************************************************)
(* Summary (what the public API shows) of a machine state                  *)
(***************************************************************************)
NodeSet(m) == {m.nodes[i] : i \in DOMAIN m.nodes}
InD(E, t) == Cardinality({e \in E : e[2] = t})
OutD(E, t) == Cardinality({e \in E : e[1] = t})
SelfL(E) == {e[1] : e \in {f \in E : f[1] = f[2]}}
Summary(m) ==
   LET N == NodeSet(m)  E == m.edges IN
   [e |-> E,
    s |-> {t \in N : InD(E, t) = 0 /\ OutD(E, t) > 0} \cup SelfL(E) \cup {t \in N : "so" \in m.attr[t]},
    t |-> {t \in N : OutD(E, t) = 0 /\ InD(E, t) > 0} \cup SelfL(E) \cup {t \in N : "to" \in m.attr[t]},
    i |-> {t \in N : InD(E, t) > 0 /\ OutD(E, t) > 0} \ SelfL(E),
    x |-> IF m.crashed THEN "NetworkXError" ELSE "none"]

(***************************************************************************)
(* Ideal layer: C03, clause by clause, as a relation                       *)
(***************************************************************************)
\* ideal state: the edge set and marks the statement defines, whether it still defines them exactly,
\* the tables ever read, and the previous observed summary
Ideal0 == [E |-> {}, so |-> {}, to |-> {}, exact |-> TRUE, read |-> {},
           prev |-> [e |-> {}, s |-> {}, t |-> {}, i |-> {}, x |-> "none"]]
RolesFrom(E, so, to) ==
   LET N == {e[1] : e \in E} \cup {e[2] : e \in E} IN
   [e |-> E,
    s |-> {t \in N : InD(E, t) = 0} \cup SelfL(E) \cup so,
    t |-> {t \in N : OutD(E, t) = 0} \cup SelfL(E) \cup to,
    i |-> {t \in N : InD(E, t) > 0 /\ OutD(E, t) > 0} \ SelfL(E),
    x |-> "none"]
AllOf(o) == {e[1] : e \in o.e} \cup {e[2] : e \in o.e} \cup o.s \cup o.t \cup o.i
Without(o, t) == [e |-> {e \in o.e : e[1] # t /\ e[2] # t}, s |-> o.s \ {t}, t |-> o.t \ {t}, i |-> o.i \ {t}, x |-> o.x]
SubstE(E, x, y) == {<<Rel(x, y, e[1]), Rel(x, y, e[2])>> : e \in E}

\* returns [ok |-> "ok" or the failed clause, st |-> next ideal state]
IdealRW(I, s, o) ==
   LET W == IF s.w = None THEN {} ELSE {s.w}
       E2 == IF s.r # {} /\ W # {} THEN I.E \cup (s.r \X W) ELSE I.E
       so2 == IF s.r # {} /\ W = {} THEN I.so \cup s.r ELSE I.so
       to2 == IF s.r = {} /\ W # {} THEN I.to \cup W ELSE I.to
       exp == RolesFrom(E2, so2, to2)
       nxt == [I EXCEPT !.E = E2, !.so = so2, !.to = to2, !.read = @ \cup s.r, !.prev = o] IN
   IF I.exact
   THEN [ok |-> IF o.e # exp.e THEN "edge_iff" ELSE IF o.s # exp.s THEN "sources" ELSE IF o.t # exp.t THEN "targets"
                ELSE IF o.i # exp.i THEN "intermediates" ELSE "ok", st |-> nxt]
   ELSE [ok |-> IF s.r # {} /\ W # {} /\ ~((s.r \X W) \subseteq o.e) THEN "edge_added" ELSE "ok", st |-> nxt]
IdealDrop(I, t, o) ==
   LET removed == t \in AllOf(I.prev) /\ t \notin AllOf(o)
       touched == t \in I.read \/ \E e \in I.prev.e : e[1] = t \/ e[2] = t
       nxt == IF removed THEN [I EXCEPT !.so = @ \ {t}, !.to = @ \ {t}, !.prev = o] ELSE [I EXCEPT !.prev = o] IN
   [ok |-> IF Without(o, t) # Without(I.prev, t) THEN "drop_is_local"
           ELSE IF removed /\ touched THEN "drop_only_untouched"
           ELSE IF ~removed /\ I.exact /\ o # I.prev THEN "drop_keeps_roles"
           ELSE "ok", st |-> nxt]
RECURSIVE IdealPairs(_, _, _)
\* sequential application of the pairs on the ideal edge set while every rename is pure
IdealPairs(I, ps, known) ==
   IF ps = <<>> THEN I
   ELSE LET x == ps[1][1]  y == ps[1][2]
            pure == I.exact /\ x \notin I.so /\ x \notin I.to /\ <<x, x>> \notin I.E /\ y \notin known
            R2 == {Rel(x, y, t) : t \in I.read}      \* whatever was read from x was read from what is now called y
        IN IF pure THEN IdealPairs([I EXCEPT !.E = SubstE(@, x, y), !.read = R2], Tail(ps), (known \ {x}) \cup {y})
           ELSE IdealPairs([I EXCEPT !.exact = FALSE, !.read = R2], Tail(ps), (known \ {x}) \cup {y})
LaterNew(ps, i) == {ps[j][2] : j \in {k \in DOMAIN ps : k > i}}
IdealRen(I, ps, ordered, o) ==
   LET gone == \A i \in DOMAIN ps : ps[i][1] \in LaterNew(ps, i) \/ ps[i][1] \notin AllOf(o)
       I2 == IF ordered \/ Len(ps) = 1 THEN IdealPairs(I, ps, AllOf(I.prev))
             ELSE [I EXCEPT !.exact = FALSE, !.read = @ \cup {ps[i][2] : i \in DOMAIN ps}]   \* order unknown: be liberal
       exp == RolesFrom(I2.E, I2.so, I2.to) IN
   [ok |-> IF o.x # "none" THEN "ok"       \* an escaping error is C10's matter; nothing was observed
           ELSE IF ~gone THEN "rename_removes_old"
           ELSE IF I2.exact /\ (o.e # exp.e \/ o.s # exp.s \/ o.t # exp.t \/ o.i # exp.i) THEN "rename_in_place"
           ELSE "ok",
    st |-> [I2 EXCEPT !.prev = o]]
\* whatever the history, the classification follows from the summary's own edges by the stated rules: no incoming but
\* outgoing => source, no outgoing but incoming => target, intermediate = both minus self loops, self loop => source and target
RolesFollowEdges(o) ==
   LET N == {e[1] : e \in o.e} \cup {e[2] : e \in o.e} IN
   /\ {t \in N : InD(o.e, t) = 0} \subseteq o.s
   /\ {t \in N : OutD(o.e, t) = 0} \subseteq o.t
   /\ o.i = {t \in N : InD(o.e, t) > 0 /\ OutD(o.e, t) > 0} \ SelfL(o.e)
   /\ SelfL(o.e) \subseteq (o.s \cap o.t)
IdealStep(I, s, ordered, o) ==
   IF o.x # "none" THEN [ok |-> "ok", st |-> [I EXCEPT !.exact = FALSE, !.prev = o]]
   ELSE IF ~RolesFollowEdges(o) THEN [ok |-> "roles_follow_edges", st |-> I]
   ELSE CASE s.k = "rw" -> IdealRW(I, s, o) [] s.k = "drop" -> IdealDrop(I, s.t, o) [] s.k = "ren" -> IdealRen(I, s.pairs, ordered, o)

(***************************************************************************)
(* Behaviours                                                              *)
(***************************************************************************)
Init == /\ hist = <<>> /\ nodes = <<>> /\ attr = [t \in Tables |-> {}] /\ anch = {} /\ edges = {} /\ crashed = FALSE
        /\ ideal = [st |-> Ideal0, ok |-> "ok"]
Fold(s) == /\ Len(hist) < MaxLen /\ ~crashed /\ ideal.ok = "ok"
           /\ hist' = Append(hist, s)
           /\ \E order \in ReadOrders(s.r), pord \in Orders(s.pairs) :
                LET m == Apply(M, s, order, pord) IN
                /\ nodes' = m.nodes /\ attr' = m.attr /\ anch' = m.anch /\ edges' = m.edges /\ crashed' = m.crashed
                /\ ideal' = IdealStep(ideal.st, s, TRUE, Summary(m))
Next == \E s \in Stmts : Fold(s)
Spec == Init /\ [][Next]_vars

\* O1: every step of the machine is accepted by the ideal relation
MachineRefinesIdeal == ideal.ok = "ok"
NeverCrashes == ~crashed
\* without DROP / RENAME the summary is a function of the SET of statements (order and repetition irrelevant)
NoDR == \A i \in DOMAIN hist : hist[i].k = "rw"
SetE == UNION {hist[i].r \X (IF hist[i].w = None THEN {} ELSE {hist[i].w}) : i \in DOMAIN hist}
SetSo == UNION {IF hist[i].w = None THEN hist[i].r ELSE {} : i \in DOMAIN hist}
SetTo == UNION {IF hist[i].r = {} /\ hist[i].w # None THEN {hist[i].w} ELSE {} : i \in DOMAIN hist}
OrderAndRepetitionIrrelevant ==
   NoDR => LET f == RolesFrom(SetE, SetSo, SetTo)  g == Summary(M) IN f.e = g.e /\ f.s = g.s /\ f.t = g.t /\ f.i = g.i
SelfLoopIsSourceAndTarget == \A t \in SelfL(edges) : LET g == Summary(M) IN t \in g.s /\ t \in g.t /\ t \notin g.i
TypeOK == /\ \A i, j \in DOMAIN nodes : i # j => nodes[i] # nodes[j]
          /\ \A e \in edges : InSeq(nodes, e[1]) /\ InSeq(nodes, e[2])
          /\ \A t \in Tables : (attr[t] # {} \/ t \in anch) => InSeq(nodes, t)

EmitCase == (Emit /\ Len(hist) > 0) => PrintT(<<"CASE", ToJson([h |-> hist, o |-> Summary(M)])>>)
=============================================================================
