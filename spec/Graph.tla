------------------------------- MODULE Graph --------------------------------
(***************************************************************************)
(* Invariants of an analysis RESULT (C06: column lineage is well-formed    *)
(* and consistent with table lineage; C18: the export is faithful).        *)
(* They relate parts of one result to each other, so they need no oracle:  *)
(* R is the projection of a result - of a state of the specification       *)
(* (ScriptCol.tla) or of an observed LineageRunner result (Trace_Graph).   *)
(*                                                                         *)
(* R.paths       Seq(Seq(col))   col = [key, id, raw, owner, okind, ncands] *)
(* R.cedges      set of <<key, key>>  direct column dependencies           *)
(* R.cnodes      set of col                                                *)
(* R.tnodes, R.tedges, R.src, R.tgt, R.mid   table graph and role sets     *)
(* R.owners      set of <<column key, owner name>>: has_column edges       *)
(* R.notfound    nodes / edge endpoints not retrievable by equality+hash   *)
(* R.xt, R.xc    the two exports; R.sum the parsed text summary            *)
(***************************************************************************)
EXTENDS Naturals, Sequences, FiniteSets, TLC

ToSet(s) == {s[i] : i \in DOMAIN s}
Last(s) == s[Len(s)]

\* ------------------------------------------------------------------ C06
HasHop(R) == \A p \in ToSet(R.paths) : Len(p) >= 2
ChainOfEdges(R) == \A p \in ToSet(R.paths) : \A i \in 1..(Len(p) - 1) : <<p[i].key, p[i + 1].key>> \in R.cedges
StartsAtRoot(R) == \A p \in ToSet(R.paths) : ~\E e \in R.cedges : e[2] = p[1].key
EndsAtWrittenTable(R) == \A p \in ToSet(R.paths) :
   Last(p).okind \in {"Table", "Path"} /\ Last(p).owner \in (R.tgt \cup R.mid)
ReadTables(R) == R.src \cup R.mid \cup {e[1] : e \in R.tedges}
SourceTablesAreRead(R) == \A p \in ToSet(R.paths) :
   (Len(p) >= 2 /\ p[1].okind \in {"Table", "Path"}) => p[1].owner \in ReadTables(R)
\* reachability in the table graph, breadth first
RECURSIVE Reach(_, _, _)
Reach(E, frontier, seen) == LET nxt == {e[2] : e \in {f \in E : f[1] \in frontier}} \ seen IN
                            IF nxt = {} THEN seen ELSE Reach(E, nxt, seen \cup nxt)
TableGraphConnects(R) == \A p \in ToSet(R.paths) :
   (Len(p) >= 2 /\ p[1].okind \in {"Table", "Path"} /\ Last(p).okind \in {"Table", "Path"}) =>
       Last(p).owner \in Reach(R.tedges, {p[1].owner}, {})
\* a resolved column is never attached to a second or a different owner in the graph
OneOwner(R) == \A c \in R.cnodes : c.ncands = 1 => {o[2] : o \in {x \in R.owners : x[1] = c.key}} \subseteq R.ownernames[c.oclass]
Retrievable(R) == R.notfound = {}

C06Clauses(R) ==
   IF ~HasHop(R) THEN "path_has_a_hop"
   ELSE IF ~ChainOfEdges(R) THEN "path_is_chain_of_direct_dependencies"
   ELSE IF ~StartsAtRoot(R) THEN "path_starts_at_unfed_column"
   ELSE IF ~EndsAtWrittenTable(R) THEN "path_ends_at_written_table"
   ELSE IF ~SourceTablesAreRead(R) THEN "source_column_table_is_read"
   ELSE IF ~R.big /\ ~TableGraphConnects(R) THEN "table_graph_connects"
   ELSE IF ~OneOwner(R) THEN "resolved_column_has_one_owner"
   ELSE IF ~Retrievable(R) THEN "nodes_retrievable"
   ELSE "ok"

\* ------------------------------------------------------------------ C18
\* table level: R.xt = [nodes |-> Seq(id), edges |-> Seq([id, s, t])]
XtExact(R) == ToSet(R.xt.nodes) = R.tnodes /\ {<<e.s, e.t>> : e \in ToSet(R.xt.edges)} = R.tedges
XtRefs(R) == \A e \in ToSet(R.xt.edges) : e.s \in ToSet(R.xt.nodes) /\ e.t \in ToSet(R.xt.nodes)
Unique(seq) == Cardinality(ToSet(seq)) = Len(seq)
XtUnique(R) == Unique(R.xt.nodes \o [i \in DOMAIN R.xt.edges |-> R.xt.edges[i].id])
\* column level: R.xc = [cols |-> Seq([id, parent]), parents |-> Seq(id), edges |-> Seq([id, s, t])]
\* an owner may print under several names when equal objects print differently (a subquery is identified by its text,
\* printed by its alias): R.ownernames[class] = the names the owner class of a column prints under
XcExact(R) == /\ {c.id : c \in ToSet(R.xc.cols)} = {c.id : c \in R.cnodes}
              /\ \A x \in ToSet(R.xc.cols) : \E c \in R.cnodes : c.id = x.id /\ x.parent \in R.ownernames[c.oclass]
              /\ \A p \in ToSet(R.xc.parents) : \E c \in R.cnodes : p \in R.ownernames[c.oclass]
              /\ \A c \in R.cnodes : \E p \in ToSet(R.xc.parents) : p \in R.ownernames[c.oclass]
              /\ {<<e.s, e.t>> : e \in ToSet(R.xc.edges)} = R.cedgeids
XcRefs(R) == LET ids == {c.id : c \in ToSet(R.xc.cols)} \cup ToSet(R.xc.parents) IN
             /\ \A e \in ToSet(R.xc.edges) : e.s \in ids /\ e.t \in ids
             /\ \A c \in ToSet(R.xc.cols) : c.parent \in ToSet(R.xc.parents)
XcUnique(R) == Unique([i \in DOMAIN R.xc.cols |-> R.xc.cols[i].id] \o R.xc.parents \o [i \in DOMAIN R.xc.edges |-> R.xc.edges[i].id])
\* text summary: each list = Seq([name, rank]) with rank = position of the name in sorted order (supplied by the projection)
Increasing(seq) == \A i \in 1..(Len(seq) - 1) : seq[i].rank < seq[i + 1].rank
Names(seq) == {seq[i].name : i \in DOMAIN seq}
SummaryOK(R) == /\ Names(R.sum.src) = R.src /\ Names(R.sum.tgt) = R.tgt /\ Names(R.sum.mid) = R.mid
                /\ Increasing(R.sum.src) /\ Increasing(R.sum.tgt) /\ Increasing(R.sum.mid)
                /\ Len(R.sum.src) = Cardinality(R.src) /\ Len(R.sum.tgt) = Cardinality(R.tgt) /\ Len(R.sum.mid) = Cardinality(R.mid)
C18Clauses(R) ==
   IF ~XtExact(R) THEN "table_export_exact"
   ELSE IF ~XtRefs(R) THEN "table_export_references"
   ELSE IF ~XtUnique(R) THEN "table_export_unique_ids"
   ELSE IF ~XcExact(R) THEN "column_export_exact"
   ELSE IF ~XcRefs(R) THEN "column_export_references"
   ELSE IF ~XcUnique(R) THEN "column_export_unique_ids"
   ELSE IF ~SummaryOK(R) THEN "summary_lists_roles_sorted_once"
   ELSE "ok"
=============================================================================
