SPECIFICATION TSpec
CONSTANTS
  TableSeq <- NoTables
  MaxLen = 0
  MaxPairs = 0
  Known = {}
  Emit = FALSE
INVARIANT Report
CHECK_DEADLOCK FALSE
