SPECIFICATION TSpec
CONSTANTS
  TableSeq <- NoTables
  MaxLen = 0
  MaxPairs = 0
  Known = {}
  Emit = FALSE
  ColumnLess = FALSE
INVARIANT Report
CHECK_DEADLOCK FALSE
