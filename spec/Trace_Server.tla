---------------------------- MODULE Trace_Server ----------------------------
(***************************************************************************)
(* Trace validation for C17: every recorded request/response of the real   *)
(* WSGI application (event "request" with its arguments, then "response"   *)
(* with the projected observation: status class and the set of tree nodes  *)
(* whose content or entries appear anywhere in status, headers or body) is *)
(* decided by the ideal layer of Server.tla: Containment, RefusedOutside.  *)
(* The path is re-walked by the specification (Walk per logged segment).   *)
(***************************************************************************)
EXTENDS Server, IOUtils
Traces == JsonDeserialize(IOEnv.TRACE_FILE)
VARIABLES tid, l, verdict
ToSet(s) == {s[i] : i \in DOMAIN s}
T == Traces[tid]
TInit == tid \in 1..Len(Traces) /\ l = 1 /\ verdict = "run" /\ segs = <<>>
Obs == [status |-> T.status, disclosed |-> ToSet(T.disclosed)]
Check == IF T.route = "get"
         THEN IF ~Containment("STATIC", Obs) THEN "containment_get"
              ELSE IF ~RefusedOutside(LiesInside(StaticAbs, StaticAbs \o GetPath(T.start, segs)), Obs) THEN "refused_outside_get" ELSE "ok"
         ELSE IF ~Containment(T.root, Obs) THEN "containment_" \o T.route
              ELSE IF ~RefusedOutside(LiesInside(RootAbsOf(T.root), AbsOf(T.start, segs)), Obs) THEN "refused_outside_" \o T.route ELSE "ok"
TNext == /\ verdict = "run"
         /\ IF l <= Len(T.segs)
            THEN segs' = Append(segs, T.segs[l]) /\ l' = l + 1 /\ UNCHANGED verdict      \* event: request segment l (Walk)
            ELSE verdict' = Check /\ UNCHANGED <<segs, l>>                                \* event: response
         /\ UNCHANGED tid
TSpec == TInit /\ [][TNext]_<<segs, tid, l, verdict>>
Report == verdict # "run" => PrintT(<<"VERDICT", tid, l, verdict>>)
=============================================================================
