------------------------------- MODULE Server -------------------------------
(***************************************************************************)
(* S6 - path containment of the bundled web application (drawing.py), C17. *)
(*                                                                         *)
(* A fixed scratch tree (built for real by the harness):                   *)
(*   ABOVE/ w_above.txt                                                    *)
(*     BASE/ w_base.txt                                                    *)
(*       sqlroot/ (ROOT)  w_root.txt  child.sql (CHILD)                    *)
(*          sub/ (SUB)    w_sub.txt   nested.sql (NESTED)                  *)
(*       sqlroot_sib/ (SIB) w_sib.txt sib.sql (SIBF)   name has ROOT's as prefix *)
(*       outside/ (OUT)   w_out.txt   secret.sql (SECRET)                  *)
(*       static/ (STATIC) w_static.txt index.html (INDEX) asset.js (ASSET) *)
(* A behaviour builds a path one segment at a time (Walk); every state is  *)
(* a path, and for that path every request (route x spelling x root        *)
(* setting) is evaluated.                                                  *)
(*                                                                         *)
(* Ideal layer: LiesInside (the path, '.' and '..' resolved, starts with   *)
(* the root's components), InsideOf on nodes, and the statement's clauses: *)
(*   Containment     whatever a response discloses lies inside the root    *)
(*   RefusedOutside  a path that does not denote a node inside the root    *)
(*                   discloses nothing                                     *)
(* Machine layer: Outcome(req) - the gate and the handlers of drawing.py   *)
(* (after the fix: the gate compares the normalised path component-wise    *)
(* and also covers the directory that /directory lists for an f payload).  *)
(* Deviations: D_PREFIX_ON_UNNORMALISED, D_DIRECTORY_LISTS_PARENT_OF_F,    *)
(* D_GET_NO_DOTDOT_CHECK, D_GET_KEEPS_ABSOLUTE, D_GATE_IGNORES_ROOT_CHANGE.  *)
(***************************************************************************)
EXTENDS Naturals, Sequences, FiniteSets, TLC, Json

CONSTANTS MaxSegs, Segs, Known, Emit

None == "none"
Dirs == {"ABOVE", "BASE", "ROOT", "SUB", "SIB", "OUT", "STATIC"}
Files == {"CHILD", "NESTED", "SIBF", "SECRET", "INDEX", "ASSET"}
Nodes == Dirs \cup Files
Failed == {"MISSING", "NOTDIR"}
Parent == [n \in Nodes |->
   CASE n \in {"ABOVE", "BASE"} -> "ABOVE" [] n \in {"ROOT", "SIB", "OUT", "STATIC"} -> "BASE"
     [] n \in {"CHILD", "SUB"} -> "ROOT" [] n = "NESTED" -> "SUB" [] n = "SIBF" -> "SIB"
     [] n = "SECRET" -> "OUT" [] n \in {"INDEX", "ASSET"} -> "STATIC"]
Name == [n \in Nodes |->
   CASE n = "ROOT" -> "sqlroot" [] n = "SIB" -> "sqlroot_sib" [] n = "OUT" -> "outside" [] n = "STATIC" -> "static"
     [] n = "CHILD" -> "child.sql" [] n = "SUB" -> "sub" [] n = "NESTED" -> "nested.sql" [] n = "SIBF" -> "sib.sql"
     [] n = "SECRET" -> "secret.sql" [] n = "INDEX" -> "index.html" [] n = "ASSET" -> "asset.js" [] OTHER -> "?"]
Child(n, s) == IF \E c \in Nodes \ {"ABOVE", "BASE"} : Parent[c] = n /\ Name[c] = s
               THEN CHOOSE c \in Nodes \ {"ABOVE", "BASE"} : Parent[c] = n /\ Name[c] = s ELSE "MISSING"
RECURSIVE InsideOf(_, _)
InsideOf(root, n) == IF n \in Failed THEN FALSE ELSE IF n = root THEN TRUE ELSE IF n = "ABOVE" THEN FALSE ELSE InsideOf(root, Parent[n])

\* ---- walking a path the way the operating system does (raw string handed to open()/iterdir())
StepRaw(n, s) == IF n \in Failed THEN n
                 ELSE IF n \in Files THEN "NOTDIR"               \* anything after a file, even "." or a trailing slash
                 ELSE IF s \in {"", "."} THEN n
                 ELSE IF s = ".." THEN Parent[n]
                 ELSE Child(n, s)
RECURSIVE WalkRaw(_, _, _)
WalkRaw(n, p, i) == IF i > Len(p) THEN n ELSE WalkRaw(StepRaw(n, p[i]), p, i + 1)
\* pathlib drops "." and empty components when it parses a string (it keeps "..")
RECURSIVE DropDots(_)
DropDots(p) == IF p = <<>> THEN <<>> ELSE IF Head(p) \in {"", "."} THEN DropDots(Tail(p)) ELSE <<Head(p)>> \o DropDots(Tail(p))
\* lexical normalisation of an absolute component list ("/" has no parent): what resolve()/normpath yield without symlinks
RECURSIVE NormLex(_, _)
NormLex(acc, p) == IF p = <<>> THEN acc
                   ELSE IF Head(p) \in {"", "."} THEN NormLex(acc, Tail(p))
                   ELSE IF Head(p) = ".." THEN NormLex(IF acc = <<>> THEN <<>> ELSE SubSeq(acc, 1, Len(acc) - 1), Tail(p))
                   ELSE NormLex(Append(acc, Head(p)), Tail(p))
IsPrefix(a, b) == Len(a) <= Len(b) /\ SubSeq(b, 1, Len(a)) = a

\* ---- requests
Starts == {"root_abs", "base_abs", "base_rel", "root_rel"}
RootSets == {"abs", "rel"}
PostRoutes == {"script_f", "lineage_f", "directory_d", "directory_f"}
\* absolute component list of the requested path, counted from ABOVE ("A" stands for everything above it)
AbsOf(start, p) == CASE start = "root_abs" -> <<"A", "base", "sqlroot">> \o p
                     [] start = "base_abs" -> <<"A", "base">> \o p
                     [] start = "base_rel" -> IF p # <<>> /\ p[1] = "" THEN <<"/">> \o p ELSE <<"A", "base">> \o p
                     [] start = "root_rel" -> IF p # <<>> /\ p[1] = "" THEN <<"/">> \o p ELSE <<"A", "base", "sqlroot">> \o p
RootAbs == <<"A", "base", "sqlroot">>
\* the configured root can be re-pointed between requests: the sql directory or the "outside" directory
Roots == {"ROOT", "OUT"}
RootAbsOf(R) == IF R = "ROOT" THEN RootAbs ELSE <<"A", "base", "outside">>
StartNode(start, p) == IF start \in {"base_rel", "root_rel"} /\ p # <<>> /\ p[1] = "" THEN "ABOVE"   \* a relative spelling starting with "/" is absolute
                       ELSE IF start \in {"root_abs", "root_rel"} THEN "ROOT" ELSE "BASE"
\* a relative spelling must be a non-empty string
ValidReq(start, p) == start \in {"root_abs", "base_abs"} \/ (\E i \in DOMAIN p : p[i] # "")

\* ---- the property
\* a path "lies inside" a root when, '.' and '..' resolved, its components start with the root's (whether or not it exists)
LiesInside(rootabs, absp) == IsPrefix(rootabs, NormLex(<<>>, absp))
Containment(root, out) == \A n \in out.disclosed : InsideOf(root, n)
RefusedOutside(inside, out) == ~inside => out.disclosed = {}
StaticAbs == <<"A", "base", "static">>

\* ---- machine: gate + handlers
Out(status, disclosed) == [status |-> status, disclosed |-> disclosed]
Gate(R, absp) == IF "D_PREFIX_ON_UNNORMALISED" \in Known
              THEN LET q == DropDots(absp) IN      \* str(Path(p).absolute()).startswith(str(root)): raw string prefix
                   Len(q) >= 3 /\ q[1] = "A" /\ q[2] = "base" /\ q[3] \in (IF R = "ROOT" THEN {"sqlroot", "sqlroot_sib"} ELSE {"outside"})
              ELSE IF "D_GATE_IGNORES_ROOT_CHANGE" \in Known THEN IsPrefix(RootAbs, NormLex(<<>>, absp))     \* verdict of the first root
              ELSE IsPrefix(RootAbsOf(R), NormLex(<<>>, absp))
\* Path(f).parent: drop the last component; the parent of a bare prefix is its real parent, the parent of "." is "."
ParentComps(start, p) == LET q == DropDots(p) IN
   IF q # <<>> THEN SubSeq(q, 1, Len(q) - 1) ELSE IF start \in {"root_abs", "base_abs"} THEN <<"..">> ELSE <<>>
Post(R, route, start, p) ==
   LET absp == AbsOf(start, p)
       sn == StartNode(start, p) IN
   IF ~Gate(R, absp) THEN Out("refused", {})
   ELSE CASE route \in {"script_f", "lineage_f"} ->
               LET n == WalkRaw(sn, p, 1) IN IF n \in Files THEN Out("ok", {n}) ELSE Out("refused", {})
          [] route = "directory_d" ->
               LET n == WalkRaw(sn, DropDots(p), 1) IN IF n \in Dirs THEN Out("ok", {n}) ELSE Out("refused", {})
          [] route = "directory_f" ->
               LET pc == ParentComps(start, p)
                   pabs == NormLex(<<>>, AbsOf(start, pc))
                   n == WalkRaw(sn, pc, 1) IN
               IF "D_DIRECTORY_LISTS_PARENT_OF_F" \notin Known /\ ~IsPrefix(RootAbsOf(R), pabs) THEN Out("refused", {})
               ELSE IF n \in Dirs THEN Out("ok", {n}) ELSE Out("refused", {})
\* GET spellings: "static" = segments under the static folder; "abs" = PATH_INFO carries an absolute file system path
\* behind a doubled slash ("//<abs base>/segments"): stripped of its slashes it is just a (missing) relative name
GetPath(gs, p) == IF gs = "abs" THEN <<"ABSBASE">> \o p ELSE p
Get(gs, p0) == LET p == GetPath(gs, p0) IN
          IF "D_GET_NO_DOTDOT_CHECK" \notin Known /\ \E i \in DOMAIN p : p[i] = ".." THEN Out("refused", {})
          ELSE IF p = <<>> \/ p = <<"">> THEN Out("ok", {"INDEX"})
          ELSE IF "D_GET_KEEPS_ABSOLUTE" \in Known /\ gs = "abs"
          THEN LET n == WalkRaw("BASE", DropDots(p0), 1) IN IF n \in Files THEN Out("ok", {n}) ELSE Out("refused", {})
          ELSE LET n == WalkRaw("STATIC", DropDots(p), 1) IN IF n \in Files THEN Out("ok", {n}) ELSE Out("refused", {})

VARIABLES segs
vars == <<segs>>
Init == segs = <<>>
Walk(s) == Len(segs) < MaxSegs /\ segs' = Append(segs, s)
Next == \E s \in Segs : Walk(s)
Spec == Init /\ [][Next]_vars

\* ---- O1: the mechanism as specified keeps the property for every request on this path
PostContained == \A R \in Roots, r \in PostRoutes, st \in Starts : ValidReq(st, segs) =>
                    LET o == Post(R, r, st, segs) IN Containment(R, o) /\ RefusedOutside(LiesInside(RootAbsOf(R), AbsOf(st, segs)), o)
GetContained == \A gs \in {"static", "abs"} :
                    LET o == Get(gs, segs) IN Containment("STATIC", o) /\ RefusedOutside(LiesInside(StaticAbs, StaticAbs \o GetPath(gs, segs)), o)

\* ---- generation: one CASE per path with the machine's answer for every request on it
Cases == {[root |-> R, route |-> r, start |-> st, status |-> Post(R, r, st, segs).status, disclosed |-> Post(R, r, st, segs).disclosed]
             : R \in Roots, r \in PostRoutes, st \in {s \in Starts : ValidReq(s, segs)}}
         \cup {[root |-> "STATIC", route |-> "get", start |-> gs, status |-> Get(gs, segs).status, disclosed |-> Get(gs, segs).disclosed] : gs \in {"static", "abs"}}
EmitCase == Emit => PrintT(<<"CASE", ToJson([segs |-> segs, reqs |-> Cases])>>)
=============================================================================
