---- MODULE MC_Script ----
EXTENDS Script
TS3 == <<"a", "b", "c">>
TS4 == <<"a", "b", "c", "d">>
TS5 == <<"a", "b", "c", "d", "e">>
====
