SPECIFICATION TSpec
CONSTANTS
  Kinds = {"insert", "insert_cols", "ctas", "update", "merge"}
  Schemas = {"none", "s"}
  Bare = {"a", "b"}
  TAliases = {"x", "b", "y", "u", "v", "a", "zt"}
  SAliases = {"x", "y", "b", "u", "v", "a"}
  ColNames = {"c", "d"}
  MaxRels = 3
  MaxItems = 3
  MaxRefs = 2
  Known = {}
  Emit = FALSE
  WithUnion = TRUE
  WithMeta = TRUE
  WithLiteral = TRUE
  WithForeign = TRUE
  WithLca = TRUE
INVARIANT Report
CHECK_DEADLOCK FALSE
