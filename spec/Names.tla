-------------------------------- MODULE Names --------------------------------
(***************************************************************************)
(* S1 - identifier identity (C16).  An identifier part is a base word in a *)
(* case pattern, unquoted or in one of three quote styles; a name is 1-3   *)
(* parts.  The normaliser (helpers.escape_identifier_name): an unquoted    *)
(* part compares case-insensitively (printed lower-case), a quoted part    *)
(* keeps its case and loses only the quotes; a dotted name splits at its   *)
(* LAST dot into qualifier and leaf.                                       *)
(* A behaviour writes an identifier at one syntactic position and reads an *)
(* identifier at another; the ideal says whether both denote the same      *)
(* entity and how each is printed.  The machine applies the normaliser     *)
(* Apply[pos] times: once everywhere in the intended mechanism; under      *)
(* D_NORM_TWICE a position normalises the already normalised text again,   *)
(* which lower-cases a quoted mixed-case part (the function is not         *)
(* idempotent).                                                            *)
(***************************************************************************)
EXTENDS Naturals, Sequences, FiniteSets, TLC, Json
CONSTANTS Cases, Quotes, Positions, Known, Emit, MaxParts

Parts == [c : Cases, q : Quotes]
Norm(p) == IF p.q = "none" THEN "low" ELSE p.c          \* the case the part is printed / compared in
Twice(pos) == ("D_NORM_TWICE@" \o pos) \in Known
MachineNorm(p, pos) == IF Twice(pos) THEN "low" ELSE Norm(p)
Names(n) == [1..n -> Parts]
AllNames == UNION {Names(n) : n \in 1..MaxParts}
Entity(name) == [i \in DOMAIN name |-> Norm(name[i])]
MachineEntity(name, pos) == [i \in DOMAIN name |-> MachineNorm(name[i], pos)]
Qualifier(e) == SubSeq(e, 1, Len(e) - 1)
Leaf(e) == e[Len(e)]

VARIABLES wname, wpos, rname, rpos, phase
vars == <<wname, wpos, rname, rpos, phase>>
Init == wname = <<>> /\ wpos = "none" /\ rname = <<>> /\ rpos = "none" /\ phase = "write"
\* table positions take 1..MaxParts parts, column / alias positions one part
TablePos(pos) == pos \in {"from", "target", "next_stmt_from", "table_qualifier"}
NamesAt(pos) == IF TablePos(pos) THEN AllNames ELSE Names(1)
Write == /\ phase = "write" /\ \E pos \in {p \in Positions : p \in {"target", "target_column", "collist", "alias_def", "from"}} : \E n \in NamesAt(pos) :
              wname' = n /\ wpos' = pos
         /\ phase' = "read" /\ UNCHANGED <<rname, rpos>>
\* which read position looks up what a write position established
\* "..._after_rename": the table that carries the written column is renamed between the write and the read
Pairs == {<<"target", "next_stmt_from">>, <<"target_column", "next_stmt_colref">>, <<"collist", "next_stmt_colref">>,
          <<"target_column", "next_stmt_colref_after_rename">>, <<"alias_def", "qualifier">>, <<"from", "from">>,
          \* a table read without alias, named again as the qualifier of a column reference (the leaf part is what is looked up)
          <<"from", "table_qualifier">>}
Read == /\ phase = "read" /\ \E pos \in Positions : \E n \in NamesAt(pos) :
             <<wpos, pos>> \in Pairs /\ Len(n) = Len(wname) /\ rname' = n /\ rpos' = pos
             \* a qualifier whose schema part names another schema is a dangling reference, not a statement of the grammar:
             \* the schema part is written as in FROM, the table part varies
             /\ (pos = "table_qualifier" => SubSeq(n, 1, Len(n) - 1) = SubSeq(wname, 1, Len(wname) - 1))
        /\ phase' = "done" /\ UNCHANGED <<wname, wpos>>
Next == Write \/ Read
Spec == Init /\ [][Next]_vars

\* ---- ideal
SameEntity == Entity(wname) = Entity(rname)
\* ---- machine
MachineSame == MachineEntity(wname, wpos) = MachineEntity(rname, rpos)
WrittenIsFoundAgain == phase = "done" => (MachineSame <=> SameEntity)
SameSpellingSameEntity == (phase = "done" /\ wname = rname) => MachineSame
UnquotedCaseInsensitive == (phase = "done" /\ \A i \in DOMAIN wname : wname[i].q = "none" /\ rname[i].q = "none") => MachineSame
QuotedKeepsCase == (phase = "done" /\ \E i \in DOMAIN wname : wname[i].q # "none" /\ rname[i].q # "none" /\ wname[i].c # rname[i].c) => ~MachineSame
PrintedAsNormalised == phase = "done" => MachineEntity(wname, wpos) = Entity(wname) /\ MachineEntity(rname, rpos) = Entity(rname)
EmitCase == (Emit /\ phase = "done") =>
   PrintT(<<"CASE", ToJson([wname |-> wname, wpos |-> wpos, rname |-> rname, rpos |-> rpos, same |-> SameEntity,
                            wprint |-> Entity(wname), rprint |-> Entity(rname)])>>)
=============================================================================
