------------------------------ MODULE Trace_Col ------------------------------
(***************************************************************************)
(* Trace validation for C02 / C13 / C08(columns): a trace is a program of  *)
(* Col.tla (its build steps are re-taken through Col's actions: Start,     *)
(* AddTbl / AddSub per relation, ToItems, AddItem per item, AddBranch,     *)
(* Finish) followed by the "result" event: the (source, target) column     *)
(* pairs the real analyser reported for a rendering of the program.        *)
(* Verdict: ok = the observed flow equals Flow (by index); otherwise the   *)
(* first failing clause.                                                   *)
(***************************************************************************)
EXTENDS Col, IOUtils
Traces == JsonDeserialize(IOEnv.TRACE_FILE)
VARIABLES tid, l, verdict
T == Traces[tid]
P == T.prog
Rel(r) == [k |-> r.k, s |-> r.s, n |-> r.n, al |-> r.al, inner |-> [i \in DOMAIN r.inner |-> [c |-> r.inner[i].c, al |-> r.inner[i].al]]]
Item(it) == [al |-> it.al, refs |-> [i \in DOMAIN it.refs |-> [r |-> it.refs[i].r, c |-> it.refs[i].c]]]
Steps == 1 + Len(P.rels) + 1 + Len(P.items) + (IF Len(P.branch2) > 0 THEN 1 ELSE 0) + 1
Obs == {<<[k |-> x.k, t |-> x.t, c |-> x.c, cands |-> ToSet(x.cands)], x.tgt>> : x \in ToSet(T.flow)}
Atoms(F) == {f[1] : f \in F}
Final ==
   IF T.exc # "none" THEN "raises:" \o T.exc
   ELSE IF ~ValidProgram THEN "program_not_valid"
   ELSE IF ToSet(T.reads) # ToSet(T.reads_nometa) \/ ToSet(T.target) # ToSet(T.target_nometa) THEN "metadata_changes_table_lineage"
   ELSE IF Obs = Flow THEN "ok"
   ELSE IF \E f \in Obs : f[1].k = "one_node" THEN "path_without_hop"
   ELSE IF {f[2] : f \in Obs} # {f[2] : f \in Flow} THEN "target_columns_named"
   ELSE IF \E f \in Obs \ Flow : f[1].k = "col" /\ ~\E g \in Flow : g[2] = f[2] /\ g[1].k = "col" /\ g[1].c = f[1].c THEN "source_column_not_in_expression"
   ELSE IF \E f \in Obs \ Flow : f[1].k = "col" THEN "source_attributed_to_wrong_relation"
   ELSE IF \E f \in Flow \ Obs : f[1].k = "col" THEN "source_column_missing"
   ELSE "unresolved_reference_handling"
TNext == /\ verdict = "run"
         /\ IF l <= Steps
            THEN /\ Next /\ l' = l + 1 /\ UNCHANGED verdict
                 /\ (phase' = "done" => (kind' = P.kind /\ collist' = [i \in DOMAIN P.collist |-> P.collist[i]] /\ known' = ToSet(P.known) /\ tk' = P.tk /\ lca' = P.lca))
                 /\ kind' \in {None, P.kind}
                 /\ Len(rels') <= Len(P.rels) /\ \A i \in DOMAIN rels' : rels'[i] = Rel(P.rels[i])
                 /\ Len(items') <= Len(P.items) /\ \A i \in DOMAIN items' : items'[i] = Item(P.items[i])
                 /\ (phase' = "items" => Len(rels') = Len(P.rels))
                 /\ (phase' = "done" => Len(items') = Len(P.items) /\ Len(branch2') = Len(P.branch2))
                 /\ Len(branch2') <= Len(P.branch2)
                 /\ \A i \in DOMAIN branch2' : branch2'[i].s = P.branch2[i].s /\ branch2'[i].n = P.branch2[i].n /\ branch2'[i].al = P.branch2[i].al /\ branch2'[i].cols = P.branch2[i].cols
            ELSE verdict' = (IF phase = "done" THEN Final ELSE "program_incomplete") /\ UNCHANGED <<vars, l>>
         /\ UNCHANGED tid
Stuck == verdict = "run" /\ l <= Steps /\ ~ENABLED TNext
TStuck == Stuck /\ verdict' = "step_not_in_grammar" /\ UNCHANGED <<vars, tid, l>>
TInit == Init /\ tid \in 1..Len(Traces) /\ l = 1 /\ verdict = "run"
TSpec == TInit /\ [][TNext \/ TStuck]_<<vars, tid, l, verdict>>
Report == verdict # "run" => PrintT(<<"VERDICT", tid, l, verdict>>)
=============================================================================
