----------------------------- MODULE Accessors ------------------------------
(***************************************************************************)
(* C11 (second sentence): result accessors of one LineageRunner can be     *)
(* called in any order and any number of times with the same answers.      *)
(* The runner evaluates lazily on the first call and keeps the result;     *)
(* every accessor is a view of it.  A behaviour is a sequence of calls;    *)
(* after a call the caller may mutate the object it got back.              *)
(* Machine: evaluated flag, stored result per view, answers.               *)
(* Ideal: every answer of accessor a equals Ref[a], the answer a fresh     *)
(* runner gives when a is the only call.                                   *)
(* Deviations (expected-fail self-tests):                                  *)
(*   D_RETURNS_STORED_OBJECT   a view hands out its stored list itself     *)
(*   D_MEMO_SLOT_PER_FAMILY    one memo slot per accessor family: variants *)
(*                             (flags / level) overwrite each other        *)
(*   D_REEVALUATES_DIFFERENTLY a second evaluation is triggered and differs*)
(***************************************************************************)
EXTENDS Naturals, Sequences, FiniteSets, TLC, Json
CONSTANTS Accs, MaxCalls, Known, Emit
\* family of an accessor: variants of one method share a family
Family(a) == CASE a \in {"paths", "paths_keep_subquery_end", "paths_no_subquery_cols"} -> "paths"
               [] a \in {"cyto_table", "cyto_column"} -> "cyto"
               [] OTHER -> a
Ref(a) == <<"answer", a>>                \* what a fresh runner answers when a is the only call
Corrupt == <<"mutated by caller">>
VARIABLES calls, evaluated, store, slot, answers
vars == <<calls, evaluated, store, slot, answers>>
Init == calls = <<>> /\ evaluated = FALSE /\ store = [a \in Accs |-> Ref(a)] /\ slot = [f \in {Family(a) : a \in Accs} |-> <<>>] /\ answers = <<>>
Call(a, mut) ==
   /\ Len(calls) < MaxCalls
   /\ calls' = Append(calls, [a |-> a, mutate |-> mut])
   /\ evaluated' = TRUE
   /\ LET memo == "D_MEMO_SLOT_PER_FAMILY" \in Known
          ans == IF memo /\ slot[Family(a)] # <<>> THEN slot[Family(a)] ELSE store[a] IN
      /\ answers' = Append(answers, ans)
      /\ slot' = IF memo THEN [slot EXCEPT ![Family(a)] = ans] ELSE slot
      \* the caller mutates what it got: harmless unless the view handed out its stored object
      /\ store' = IF mut /\ "D_RETURNS_STORED_OBJECT" \in Known THEN [store EXCEPT ![a] = Corrupt] ELSE store
Next == \E a \in Accs, mut \in BOOLEAN : Call(a, mut)
Spec == Init /\ [][Next]_vars
AccessorsIdempotentAnyOrder == \A i \in DOMAIN answers : answers[i] = Ref(calls[i].a)
EmitCase == (Emit /\ Len(calls) > 0) => PrintT(<<"CASE", ToJson([calls |-> calls])>>)
=============================================================================
