---------------------------- MODULE Trace_Graph -----------------------------
(***************************************************************************)
(* Every recorded result of the real LineageRunner (event "result" with    *)
(* the projected graph, paths, role sets, both exports and the parsed text *)
(* summary) is evaluated against the invariants of Graph.tla.              *)
(* Which = "C06" or "C18" selects the clause list.                         *)
(***************************************************************************)
EXTENDS Graph, Json, IOUtils
CONSTANTS Which
Traces == JsonDeserialize(IOEnv.TRACE_FILE)
VARIABLES tid, verdict
Pair(x) == <<x[1], x[2]>>
Col(c) == [key |-> c.key, id |-> c.id, raw |-> c.raw, owner |-> c.owner, okind |-> c.okind, ncands |-> c.ncands, oclass |-> c.oclass]
Proj(T) == [paths |-> [i \in DOMAIN T.paths |-> [j \in DOMAIN T.paths[i] |-> Col(T.paths[i][j])]],
            cedges |-> {Pair(e) : e \in ToSet(T.cedges)}, cedgeids |-> {Pair(e) : e \in ToSet(T.cedgeids)},
            cnodes |-> {Col(c) : c \in ToSet(T.cnodes)},
            tnodes |-> ToSet(T.tnodes), tedges |-> {Pair(e) : e \in ToSet(T.tedges)},
            src |-> ToSet(T.src), tgt |-> ToSet(T.tgt), mid |-> ToSet(T.mid),
            owners |-> {Pair(e) : e \in ToSet(T.owners)}, notfound |-> ToSet(T.notfound), big |-> T.big,
            ownernames |-> [k \in DOMAIN T.ownernames |-> ToSet(T.ownernames[k])],
            xt |-> T.xt, xc |-> T.xc, sum |-> T.sum]
Init == tid \in 1..Len(Traces) /\ verdict = "run"
Next == verdict = "run" /\ verdict' = (IF Which = "C06" THEN C06Clauses(Proj(Traces[tid])) ELSE C18Clauses(Proj(Traces[tid]))) /\ UNCHANGED tid
Spec == Init /\ [][Next]_<<tid, verdict>>
Report == verdict # "run" => PrintT(<<"VERDICT", tid, 1, verdict>>)
=============================================================================
