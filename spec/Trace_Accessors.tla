-------------------------- MODULE Trace_Accessors ---------------------------
(***************************************************************************)
(* Trace validation for C11.  Two kinds of recorded executions:            *)
(*  "calls": a sequence of accessor calls on one real LineageRunner, each  *)
(*           with the digest of its answer, plus ref = the digest a fresh  *)
(*           runner gave when that accessor was its only call;             *)
(*  "seeds": the digests of the canonical dump of one script in processes  *)
(*           started with different PYTHONHASHSEED;                        *)
(*  "repeat": the digests of the canonical dump of one script analysed     *)
(*           several times in ONE process with ONE provider object (the    *)
(*           first entry is the dump of a fresh process-wide first run).   *)
(***************************************************************************)
EXTENDS Accessors, IOUtils
Traces == JsonDeserialize(IOEnv.TRACE_FILE)
VARIABLES tid, l, verdict
T == Traces[tid]
TInit == Init /\ tid \in 1..Len(Traces) /\ l = 1 /\ verdict = "run"
TNext == /\ verdict = "run"
         /\ IF l > Len(T.ev) THEN verdict' = "ok" /\ UNCHANGED l
            ELSE LET e == T.ev[l] IN
                 IF T.kind = "calls" /\ e.digest # T.ref[e.a] THEN verdict' = "accessor_answer_differs:" \o e.a /\ UNCHANGED l
                 ELSE IF T.kind = "seeds" /\ e.digest # T.ev[1].digest THEN verdict' = "differs_across_hash_seeds" /\ UNCHANGED l
                 ELSE IF T.kind = "repeat" /\ e.digest # T.ev[1].digest THEN verdict' = "differs_across_repetitions" /\ UNCHANGED l
                 ELSE verdict' = "run" /\ l' = l + 1
         /\ UNCHANGED <<vars, tid>>
TSpec == TInit /\ [][TNext]_<<vars, tid, l, verdict>>
Report == verdict # "run" => PrintT(<<"VERDICT", tid, l, verdict>>)
=============================================================================
