SPECIFICATION TSpec
CONSTANTS
  MaxStmts = 9
  Provider = TRUE
  Emit = FALSE
  Known = {}
INVARIANT Report
CHECK_DEADLOCK FALSE
