SPECIFICATION TSpec
CONSTANTS
  Threads = {"t1", "t2", "t3"}
  Idents = {"i1", "i2", "i3"}
  MaxOps = 0
  Known = {}
  EnvChoices = {}
  Atomic = TRUE
  Record = FALSE
  KwLevel = 2
INVARIANT Report
CHECK_DEADLOCK FALSE
