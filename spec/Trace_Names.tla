----------------------------- MODULE Trace_Names -----------------------------
(***************************************************************************)
(* Trace validation for C16: event write(name, position), event            *)
(* read(name, position), then the observation: how the real analyser       *)
(* printed both identifiers (case per part) and whether the read found     *)
(* what the write established (the lineage connects).                      *)
(***************************************************************************)
EXTENDS Names, IOUtils
Traces == JsonDeserialize(IOEnv.TRACE_FILE)
VARIABLES tid, l, verdict
T == Traces[tid]
N(x) == [i \in DOMAIN x |-> [c |-> x[i].c, q |-> x[i].q]]
Tup(s) == [i \in DOMAIN s |-> s[i]]
TInit == Init /\ tid \in 1..Len(Traces) /\ l = 1 /\ verdict = "run"
Final == IF T.exc # "none" THEN "raises:" \o T.exc
         ELSE IF Tup(T.wprinted) # Entity(wname) THEN "written_name_printed_as_normalised:" \o wpos
         ELSE IF Tup(T.rprinted) # Entity(rname) THEN "read_name_printed_as_normalised:" \o rpos
         ELSE IF ~T.hash_consistent THEN "equal_entities_hash_equally:" \o wpos
         ELSE IF T.connected # SameEntity THEN (IF SameEntity THEN "same_entity_not_found_again:" ELSE "different_entities_confused:") \o wpos \o "->" \o rpos
         ELSE "ok"
TNext == /\ verdict = "run"
         /\ IF l = 1 THEN Write /\ wname' = N(T.wname) /\ wpos' = T.wpos /\ l' = 2 /\ UNCHANGED verdict
            ELSE IF l = 2 THEN Read /\ rname' = N(T.rname) /\ rpos' = T.rpos /\ l' = 3 /\ UNCHANGED verdict
            ELSE verdict' = Final /\ UNCHANGED <<vars, l>>
         /\ UNCHANGED tid
TSpec == TInit /\ [][TNext]_<<vars, tid, l, verdict>>
Report == verdict # "run" => PrintT(<<"VERDICT", tid, l, verdict>>)
=============================================================================
