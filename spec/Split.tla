-------------------------------- MODULE Split --------------------------------
(***************************************************************************)
(* S4a - script -> statements (sqllineage.utils.helpers.split, trim_comment,*)
(* SqlFluffLineageAnalyzer.split_tsql), C05.                               *)
(*                                                                         *)
(* A script is a sequence of lexemes; a behaviour appends one lexeme per   *)
(* step, so BFS to depth N enumerates every script of <= N lexemes:        *)
(*   body b   a statement body without separator; some bodies carry a      *)
(*            semicolon inside a string literal or a quoted identifier     *)
(*   SEMI     the separator                                                *)
(*   LC, BC   line / block comment, each containing a semicolon            *)
(*   NL, SP   newline, blank                                               *)
(* Machine: mode/cur/out as a splitter that honours comments and literals. *)
(* Ideal:   Statements(script) = the bodies, in order - nothing else.      *)
(* Deviations (self-tests): D_SPLIT_IN_COMMENT, D_KEEP_COMMENT_ONLY,       *)
(* D_DROP_LAST.                                                            *)
(* NewlineMode = TRUE models the T-SQL mode without semicolons: NL is the  *)
(* only separator between bodies.                                          *)
(***************************************************************************)
EXTENDS Naturals, Sequences, FiniteSets, TLC, Json
CONSTANTS Bodies, MaxLex, MaxBodies, Known, Emit, NewlineMode

Noise == IF NewlineMode THEN {"SP", "BC"} ELSE {"LC", "BC", "NL", "SP"}
Sep == IF NewlineMode THEN "NL" ELSE "SEMI"
Lexemes == Bodies \cup Noise \cup {Sep}

VARIABLES script,  \* the lexemes so far (the input)
          cur,     \* lexemes of the statement being collected
          out      \* statements split off so far: Seq(Seq(lexeme))
vars == <<script, cur, out>>

HasBody(s) == \E i \in DOMAIN s : s[i] \in Bodies
NBodies(s) == Cardinality({i \in DOMAIN s : s[i] \in Bodies})
\* under the deviation a comment splits at the semicolon it contains: its tail is left over as junk text
\* at the start of the next statement
SplitsInside(x) == "D_SPLIT_IN_COMMENT" \in Known /\ x \in {"LC", "BC"}
SplitsHere(x) == x = Sep \/ SplitsInside(x)
HasJunk(s) == \E i \in DOMAIN s : s[i] = "JUNK"
Keep(s) == HasBody(s) \/ HasJunk(s) \/ ("D_KEEP_COMMENT_ONLY" \in Known /\ \E i \in DOMAIN s : s[i] \in {"LC", "BC"})

Init == script = <<>> /\ cur = <<>> /\ out = <<>>
Append1(x) == /\ Len(script) < MaxLex
              /\ (x \in Bodies => (~HasBody(cur) /\ NBodies(script) < MaxBodies))   \* one body per statement
              /\ script' = Append(script, x)
              /\ IF SplitsHere(x)
                 THEN /\ out' = IF Keep(cur) THEN Append(out, cur) ELSE out
                      /\ cur' = IF SplitsInside(x) THEN <<"JUNK">> ELSE <<>>
                 ELSE cur' = Append(cur, x) /\ UNCHANGED out
Next == \E x \in Lexemes : Append1(x)
Spec == Init /\ [][Next]_vars

\* what the splitter reports at end of input
Flush == IF Keep(cur) /\ "D_DROP_LAST" \notin Known THEN Append(out, cur) ELSE out
BodyOf(s) == s[CHOOSE i \in DOMAIN s : s[i] \in Bodies]
Reported == [i \in DOMAIN Flush |-> IF HasJunk(Flush[i]) THEN "junk" ELSE IF HasBody(Flush[i]) THEN BodyOf(Flush[i]) ELSE "comment-only"]
\* the property: exactly the bodies, in order
Statements(s) == SelectSeq(s, LAMBDA x : x \in Bodies)
SplitExact == Reported = Statements(script)

EmitCase == (Emit /\ Len(script) > 0) => PrintT(<<"CASE", ToJson([script |-> script, expect |-> Reported])>>)
=============================================================================
