SPECIFICATION Spec
CONSTANTS
  Which = "C18"
INVARIANT Report
CHECK_DEADLOCK FALSE
