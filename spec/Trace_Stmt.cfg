SPECIFICATION TSpec
CONSTANTS
  MaxEv = 40
  MaxDepth = 6
  MaxRel = 6
  MaxCte = 3
  TblNames = {"a", "b", "c", "d"}
  CteNames = {"a", "x", "y"}
  Schemas = {"none", "s"}
  Kinds = {"insert", "ctas", "view", "update", "merge", "query", "delete", "select_into"}
  Known = {"D_CTE_VISIBLE_IN_OWN_BODY"}
  Emit = FALSE
  Clauses = {"where", "isub", "having", "union", "paren", "on", "ubranch", "where2", "selfref"}
  DefSchemas = {"none", "s", "dflt_x"}
INVARIANT Report
CHECK_DEADLOCK FALSE
