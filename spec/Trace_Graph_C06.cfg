SPECIFICATION Spec
CONSTANTS
  Which = "C06"
INVARIANT Report
CHECK_DEADLOCK FALSE
