--------------------------------- MODULE Col ---------------------------------
(***************************************************************************)
(* S2 at column level (C02, C13; namings for C08; C16 uses its positions). *)
(* A behaviour BUILDS one data-moving statement in a few steps; the        *)
(* finished state is a program:                                            *)
(*   Start(kind)            insert | insert_cols | ctas | update | merge    *)
(*   AddTbl(schema, name, alias)     a table in the FROM scope              *)
(*   AddSub(alias, schema, name, inner)  a derived table over one table;   *)
(*                          inner = its select list: Seq of [col, alias]   *)
(*   AddItem(alias, refs)   a select item; refs: Seq of [r, c] with r the   *)
(*                          INDEX of the relation in the FROM scope (0 =   *)
(*                          unqualified) and c a column name or "*"; no    *)
(*                          refs = a literal                               *)
(*   AddBranch(schema, name) a second UNION ALL branch over one table with *)
(*                          as many items as the first (positional)        *)
(*   Finish(collist, known, tk) explicit column list (insert_cols), which   *)
(*                          tables the metadata provider knows, whether it  *)
(*                          knows the target (C13)                          *)
(* References are by index; names are a separate layer (the alias pool     *)
(* contains another table's bare name), constrained by ValidNaming.        *)
(*                                                                         *)
(* Ideal layer: Flow(prog) = set of <<source atom, target column>> read    *)
(* off the program by index.  Machine layer: the same resolution done BY   *)
(* NAME through the alias map the code builds (intended precedence:        *)
(* aliases shadow bare names; D_ALIAS_MAP_PRECEDENCE = the order before    *)
(* the fix).                                                               *)
(***************************************************************************)
EXTENDS Naturals, Sequences, FiniteSets, TLC, Json

CONSTANTS Kinds, Schemas, Bare, TAliases, SAliases, ColNames, MaxRels, MaxItems, MaxRefs, Known, Emit, WithUnion, WithMeta, WithLiteral, WithForeign, WithLca

None == "none"
Star == "*"
Inners == { <<[c |-> "c", al |-> None]>>, <<[c |-> "c", al |-> None], [c |-> "d", al |-> None]>>, <<[c |-> "c", al |-> "k"]>> }
\* what the metadata provider says about a table it knows
MetaCols(t) == IF t = "s.a" THEN <<"c", "d">> ELSE IF t = "s.b" THEN <<"c", "e">> ELSE <<"c">>

VARIABLES kind, rels, items, branch2, collist, known, tk, lca, phase
vars == <<kind, rels, items, branch2, collist, known, tk, lca, phase>>

TblName(r) == (IF r.s = None THEN "<default>" ELSE r.s) \o "." \o r.n
Exposed(r) == IF r.al # None THEN r.al ELSE r.n
ToSet(s) == {s[i] : i \in DOMAIN s}
ItemName(it) == IF it.al # None THEN it.al ELSE IF Len(it.refs) = 1 THEN it.refs[1].c ELSE "expr"

Init == kind = None /\ rels = <<>> /\ items = <<>> /\ branch2 = <<>> /\ collist = <<>> /\ known = {} /\ tk = FALSE /\ lca = FALSE /\ phase = "start"
Start == /\ phase = "start" /\ \E k \in Kinds : kind' = k
         /\ phase' = "from" /\ UNCHANGED <<rels, items, branch2, collist, known, tk, lca>>
\* exposed names pairwise distinct; the same table is not joined twice (self joins: Stmt.tla's business)
NameOK(r) == /\ \A i \in DOMAIN rels : Exposed(rels[i]) # Exposed(r)
             /\ (r.k = "tbl" => \A i \in DOMAIN rels : rels[i].k = "tbl" => TblName(rels[i]) # TblName(r))
             \* two derived tables with the same text are one relation for the analyser (a subquery is identified by its text)
             /\ (r.k = "sub" => \A i \in DOMAIN rels : rels[i].k = "sub" => (TblName(rels[i]) # TblName(r) \/ rels[i].inner # r.inner))
AddTbl == /\ phase = "from" /\ Len(rels) < MaxRels
          /\ \E s \in Schemas, n \in Bare, al \in TAliases \cup {None} :
               LET r == [k |-> "tbl", s |-> s, n |-> n, al |-> al, inner |-> <<>>] IN
               NameOK(r) /\ rels' = Append(rels, r)
          /\ UNCHANGED <<kind, items, branch2, collist, known, tk, lca, phase>>
AddSub == /\ phase = "from" /\ Len(rels) < MaxRels
          /\ \E al \in SAliases, s \in Schemas, n \in Bare, inner \in Inners :
               LET r == [k |-> "sub", s |-> s, n |-> n, al |-> al, inner |-> inner] IN
               NameOK(r) /\ rels' = Append(rels, r)
          /\ UNCHANGED <<kind, items, branch2, collist, known, tk, lca, phase>>
ToItems == /\ phase = "from" /\ Len(rels) >= 1 /\ phase' = "items" /\ UNCHANGED <<kind, rels, items, branch2, collist, known, tk, lca>>
\* an item: a literal (no refs), one reference, or an expression over two references (which must carry an alias, since the
\* display name of an un-aliased expression follows its text); a wildcard stands alone and takes no alias
\* r = Foreign: the qualifier "zz" names nothing in the FROM scope - the analyser's documented fallback takes it for a table
\* of that name in the default schema (C14: that table is created under the configured default like any other)
Foreign == 9
\* r = Scalar: not a reference into the FROM scope either - a scalar subquery ( SELECT max(zc) FROM zt ) over a table of its own
Scalar == 8
\* r = Lat: an unqualified name spelled like the select alias of an EARLIER item of the same select list.  With the configuration
\* key LATERAL_COLUMN_ALIAS_REFERENCE on and a metadata provider in use it denotes that item's expression (redshift, spark >= 3.4,
\* databricks) unless a relation in scope is known to have a column of that name; otherwise it is an ordinary unqualified column
Lat == 7
Outside(r) == r \in {Foreign, Scalar, Lat}
\* c = Cnt: no column but count(*) - an aggregate over every row of the FROM scope, fed by the wildcard of each relation
Cnt == "count(*)"
Refs == [r : 0..Len(rels), c : ColNames \cup {Star}] \cup (IF WithLiteral /\ (\A i \in DOMAIN rels : rels[i].k = "tbl") THEN {[r |-> 0, c |-> Cnt]} ELSE {})
        \cup (IF WithForeign THEN [r : {Foreign}, c : ColNames] \cup {[r |-> Scalar, c |-> "zc"]} ELSE {})
        \cup (IF WithLca THEN [r : {Lat}, c : {items[j].al : j \in DOMAIN items} \ {None}] ELSE {})
RefSeqs == (IF WithLiteral THEN {<<>>} ELSE {}) \cup {<<x>> : x \in Refs}
           \cup (IF MaxRefs >= 2 THEN {<<x, y>> : x \in {z \in Refs : z.c # Star}, y \in {z \in Refs : z.c # Star}} ELSE {})
ItemOK(it) == /\ (Len(it.refs) = 2 => it.al # None /\ it.refs[1] # it.refs[2])
              /\ ((\E m \in DOMAIN it.refs : it.refs[m].r = Scalar \/ it.refs[m].c = Cnt) => it.al # None)      \* an un-aliased subquery is named by its text
              /\ (Len(it.refs) = 0 => it.al # None)
              /\ ((\E m \in DOMAIN it.refs : it.refs[m].r = Lat) => it.al # None)
              /\ (Len(it.refs) = 1 /\ it.refs[1].c = Star => it.al = None)
              /\ \A j \in DOMAIN items : ItemName(items[j]) # ItemName(it) \/ ItemName(it) = Star
AddItem == /\ phase = "items" /\ Len(items) < MaxItems /\ branch2 = <<>>
           /\ \E al \in {None, "k", "m"} \cup (IF WithLca THEN {"e"} ELSE {}), rf \in RefSeqs :
                LET it == [al |-> al, refs |-> rf] IN ItemOK(it) /\ items' = Append(items, it)
           /\ UNCHANGED <<kind, rels, branch2, collist, known, tk, lca, phase>>
\* second branch of a set operation: one table, one single-column item per position
AddBranch == /\ phase = "items" /\ WithUnion /\ Len(items) >= 1 /\ branch2 = <<>>
             /\ \A i \in DOMAIN items : Len(items[i].refs) <= 1 /\ (Len(items[i].refs) = 1 => items[i].refs[1].c # Star)
             \* the second branch reads its table directly or through a derived table whose alias comes from the same pool as the
             \* first branch's derived tables (a statement-local name re-used in another scope)
             \* its column names are its own (y, z, w) or the names the first branch's relations use, at other positions (d, c, e)
             /\ \E s \in Schemas, n \in Bare, al \in SAliases \cup {None}, shared \in BOOLEAN :
                  branch2' = <<[s |-> s, n |-> n, al |-> al,
                                cols |-> [i \in DOMAIN items |-> IF shared THEN (IF i = 1 THEN "d" ELSE IF i = 2 THEN "c" ELSE "e")
                                                                            ELSE (IF i = 1 THEN "y" ELSE IF i = 2 THEN "z" ELSE "w")]]>>
             /\ UNCHANGED <<kind, rels, items, collist, known, tk, lca, phase>>
Tables == {TblName(rels[i]) : i \in {j \in DOMAIN rels : rels[j].k = "tbl" /\ rels[j].s # None}}    \* metadata is about schema-qualified tables
HasStar == \E i \in DOMAIN items : Len(items[i].refs) = 1 /\ items[i].refs[1].c = Star
Finish == /\ phase = "items" /\ Len(items) >= 1
          /\ \E cl \in {<<>>, [i \in DOMAIN items |-> IF i = 1 THEN "p" ELSE IF i = 2 THEN "q" ELSE "r"]}, kn \in SUBSET (IF WithMeta THEN Tables ELSE {}),
                t \in (IF WithMeta THEN BOOLEAN ELSE {FALSE}), lc \in (IF WithLca THEN BOOLEAN ELSE {FALSE}) :
               /\ (cl # <<>> <=> kind = "insert_cols")
               \* UPDATE tgt SET name = expression, ... FROM relations: one assignment per item, named by the item; references
               \* are qualified (unqualified, the target's own columns would be in scope too)
               \* MERGE INTO tgt USING relation ON .. WHEN MATCHED THEN UPDATE SET name = expression, ..
               \*   WHEN NOT MATCHED THEN INSERT (names) VALUES (expressions): one source relation, the same assignments in both arms
               /\ (kind = "merge" => Len(rels) = 1)
               /\ (kind \in {"update", "merge"} => /\ ~HasStar /\ branch2 = <<>> /\ ~t
                                      /\ \A j \in DOMAIN items, m \in 1..2 : m <= Len(items[j].refs) => items[j].refs[m].r \in 1..Len(rels))
               /\ (kind = "insert_cols" => ~HasStar)
               \* the provider may know the target table (written schema-qualified then): as many columns as the statement has items
               \* (a CREATE TABLE AS whose target the provider happens to know defines the table anew: its columns are the select's)
               /\ (t => kind \in {"insert", "insert_cols", "ctas"} /\ ~HasStar)
               /\ collist' = cl /\ known' = kn /\ tk' = t /\ lca' = lc
          /\ phase' = "done" /\ UNCHANGED <<kind, rels, items, branch2>>
Next == Start \/ AddTbl \/ AddSub \/ ToItems \/ AddItem \/ AddBranch \/ Finish
Spec == Init /\ [][Next]_vars

(***************************************************************************)
(* Ideal: dataflow by index                                                *)
(***************************************************************************)
\* output columns of a derived table: name -> source column of its inner table
SubOut(r) == [i \in DOMAIN r.inner |-> [name |-> IF r.inner[i].al # None THEN r.inner[i].al ELSE r.inner[i].c, src |-> r.inner[i].c]]
SubHas(r, c) == \E i \in DOMAIN r.inner : SubOut(r)[i].name = c
SubSrc(r, c) == SubOut(r)[CHOOSE i \in DOMAIN r.inner : SubOut(r)[i].name = c].src
IsKnown(r) == r.k = "tbl" /\ TblName(r) \in known
\* every column the statement itself establishes for relation i
QualifiedCols(i) == UNION {{items[j].refs[m].c : m \in {x \in 1..2 : x <= Len(items[j].refs) /\ items[j].refs[x].r = i}} : j \in DOMAIN items} \ {Star}
\* a derived table over table T that selects column c establishes that T has c
InnerCols(t) == UNION {{rels[j].inner[m].c : m \in DOMAIN rels[j].inner} : j \in {x \in DOMAIN rels : rels[x].k = "sub" /\ TblName(rels[x]) = t}}
                \cup (IF branch2 # <<>> /\ TblName([s |-> branch2[1].s, n |-> branch2[1].n]) = t THEN ToSet(branch2[1].cols) ELSE {})
KnownCols(i) == LET r == rels[i] IN
   (IF r.k = "sub" THEN {SubOut(r)[j].name : j \in DOMAIN r.inner} ELSE InnerCols(TblName(r)))
   \cup (IF IsKnown(r) THEN ToSet(MetaCols(TblName(r))) ELSE {})
   \cup QualifiedCols(i)
Col(t, c) == [k |-> "col", t |-> t, c |-> c, cands |-> {}]
Unres(c, cands) == [k |-> "unres", t |-> None, c |-> c, cands |-> cands]
\* a qualified reference to relation i
SrcOfRel(i, c) == LET r == rels[i] IN
   IF r.k = "tbl" THEN {Col(TblName(r), c)}
   ELSE IF SubHas(r, c) THEN {Col(TblName(r), SubSrc(r, c))} ELSE {[k |-> "subcol", t |-> r.al, c |-> c, cands |-> {}]}
AllRelNames == {IF rels[i].k = "tbl" THEN TblName(rels[i]) ELSE rels[i].al : i \in DOMAIN rels}
SrcOfRef(ref) ==
   IF ref.c = Cnt THEN {Col(TblName(rels[i]), Star) : i \in DOMAIN rels}
   ELSE IF ref.r = Foreign THEN {Col("<default>.zz", ref.c)}
   ELSE IF ref.r = Scalar THEN {Col("<default>.zt", ref.c)}
   ELSE IF ref.r > 0 THEN SrcOfRel(ref.r, ref.c)
   ELSE IF Len(rels) = 1 THEN SrcOfRel(1, ref.c)
   ELSE LET S == {i \in DOMAIN rels : ref.c \in KnownCols(i)} IN
        IF S # {} THEN UNION {SrcOfRel(i, ref.c) : i \in S} ELSE {Unres(ref.c, AllRelNames)}
\* a wildcard: per relation, expanded when the relation's columns are known (derived table, known table)
StarOf(i) == LET r == rels[i] IN
   IF r.k = "sub" THEN {<<Col(TblName(r), SubOut(r)[j].src), SubOut(r)[j].name>> : j \in DOMAIN r.inner}
   ELSE IF IsKnown(r) THEN {<<Col(TblName(r), MetaCols(TblName(r))[j]), MetaCols(TblName(r))[j]>> : j \in DOMAIN MetaCols(TblName(r))}
   ELSE {<<Col(TblName(r), Star), Star>>}
\* target column: the explicit column list always wins; else the known columns of the target of an INSERT name the positions;
\* else the select alias; else the column's own name
TgtMeta == <<"t1", "t2", "t3">>
TgtName(j) == IF collist # <<>> THEN collist[j] ELSE IF tk /\ kind # "ctas" THEN TgtMeta[j] ELSE ItemName(items[j])
\* lateral column alias reference (documented in docs/gear_up/configuration.rst): the name denotes the earlier item when the key
\* is on, a provider is in use, and no relation in scope is KNOWN to have a column of that name - known from the provider's
\* metadata or from the select list of a derived table; otherwise the name is an ordinary unqualified column reference
MetaHasCol(i, c) == IsKnown(rels[i]) /\ c \in ToSet(MetaCols(TblName(rels[i])))
FromDataset(c) == \E i \in DOMAIN rels : (rels[i].k = "sub" /\ SubHas(rels[i], c)) \/ MetaHasCol(i, c)
ProviderInUse == known # {} \/ tk
LatApplies(c) == lca /\ ProviderInUse /\ ~FromDataset(c)
LatItem(c) == CHOOSE j \in DOMAIN items : items[j].al = c
RECURSIVE ItemSrcs(_)
ItemSrcs(j) == UNION {IF items[j].refs[m].r = Lat
                      THEN (IF LatApplies(items[j].refs[m].c) /\ LatItem(items[j].refs[m].c) < j
                            THEN ItemSrcs(LatItem(items[j].refs[m].c))
                            ELSE SrcOfRef([r |-> 0, c |-> items[j].refs[m].c]))
                      ELSE SrcOfRef(items[j].refs[m]) : m \in DOMAIN items[j].refs}
FlowItem(j) == LET it == items[j] IN
   IF Len(it.refs) = 1 /\ it.refs[1].c = Star
   THEN UNION {StarOf(i) : i \in (IF it.refs[1].r > 0 THEN {it.refs[1].r} ELSE DOMAIN rels)}
   ELSE {<<s, TgtName(j)>> : s \in ItemSrcs(j)}
FlowBranch2 == IF branch2 = <<>> THEN {}
               ELSE {<<Col(TblName([s |-> branch2[1].s, n |-> branch2[1].n]), branch2[1].cols[j]), TgtName(j)>> : j \in DOMAIN items}
Flow == UNION {FlowItem(j) : j \in DOMAIN items} \cup FlowBranch2
\* two relations of one scope both known to have an unqualified column: not valid SQL
\* ... unless it is the provider's metadata (and nothing in the statement itself) that lists the column for each of them:
\* the JOIN ... USING (c) case - the column is then attributed to every in-scope table whose metadata lists it
MetaHas(i, c) == IsKnown(rels[i]) /\ c \in ToSet(MetaCols(TblName(rels[i])))
GraphCols(i) == LET r == rels[i] IN
   (IF r.k = "sub" THEN {SubOut(r)[j].name : j \in DOMAIN r.inner} ELSE InnerCols(TblName(r))) \cup QualifiedCols(i)
   \* a wildcard over the relation, expanded from metadata, is evidence in the statement too (mixed evidence is outside the grammar)
   \cup (IF r.k = "tbl" /\ IsKnown(r) /\ (\E j \in DOMAIN items : Len(items[j].refs) = 1 /\ items[j].refs[1].c = Star /\ items[j].refs[1].r \in {0, i})
        THEN ToSet(MetaCols(TblName(r))) ELSE {})
ValidColumns == \A j \in DOMAIN items, m \in 1..2 :
   (m <= Len(items[j].refs) /\ items[j].refs[m].r = 0 /\ items[j].refs[m].c \notin {Star, Cnt} /\ Len(rels) > 1)
      => LET c == items[j].refs[m].c
             S == {i \in DOMAIN rels : c \in KnownCols(i)} IN
         Cardinality(S) <= 1 \/ ((\A i \in S : MetaHas(i, c)) /\ (\A i \in DOMAIN rels : c \notin GraphCols(i)))
\* a qualified reference to a derived table names one of its output columns
ValidSubRefs == \A j \in DOMAIN items, m \in 1..2 :
   (m <= Len(items[j].refs) /\ items[j].refs[m].r > 0 /\ ~Outside(items[j].refs[m].r) /\ rels[items[j].refs[m].r].k = "sub" /\ items[j].refs[m].c # Star)
      => SubHas(rels[items[j].refs[m].r], items[j].refs[m].c)
\* an unqualified column over a single derived table is one of its output columns
ValidSingleSub == (Len(rels) = 1 /\ rels[1].k = "sub") =>
   \A j \in DOMAIN items, m \in 1..2 : (m <= Len(items[j].refs) /\ items[j].refs[m].c # Star) => SubHas(rels[1], items[j].refs[m].c)
\* the statement's output column names are pairwise distinct, wildcard expansions included
OutNames(j) == LET it == items[j] IN
   IF Len(it.refs) = 1 /\ it.refs[1].c = Star THEN {f[2] : f \in FlowItem(j)} ELSE {ItemName(it)}
ExpandedPairwiseDistinct(j) == LET it == items[j] IN
   (Len(it.refs) = 1 /\ it.refs[1].c = Star) =>
      \A a, b \in (IF it.refs[1].r > 0 THEN {it.refs[1].r} ELSE DOMAIN rels) : a # b => {f[2] : f \in StarOf(a)} \cap {f[2] : f \in StarOf(b)} \subseteq {Star}
ValidOutput == /\ \A j, k \in DOMAIN items : j # k => OutNames(j) \cap OutNames(k) \subseteq {Star}
               /\ \A j \in DOMAIN items : ExpandedPairwiseDistinct(j)
\* a lateral name refers to an earlier item that has sources; nothing else in the statement says that a plain table of the scope
\* has a column of that name (a qualified reference x.k elsewhere, a derived table over the same table selecting k: mixed evidence
\* is outside the grammar, as for ValidColumns); over a single derived table the name must be lateral or one of its columns
LatRefs == {<<j, m>> \in (DOMAIN items) \X (1..2) : m <= Len(items[j].refs) /\ items[j].refs[m].r = Lat}
ValidLat == \A jm \in LatRefs : LET c == items[jm[1]].refs[jm[2]].c IN
   /\ \E k \in 1..(jm[1] - 1) : items[k].al = c /\ Len(items[k].refs) > 0
   /\ \A i \in DOMAIN rels : rels[i].k = "tbl" => c \notin (InnerCols(TblName(rels[i])) \cup QualifiedCols(i))
   /\ (LatApplies(c) \/ ~(Len(rels) = 1 /\ rels[1].k = "sub") \/ SubHas(rels[1], c))
   /\ (~LatApplies(c) /\ Len(rels) > 1 => Cardinality({i \in DOMAIN rels : c \in KnownCols(i)}) <= 1)
ValidProgram == ValidColumns /\ ValidSubRefs /\ ValidSingleSub /\ ValidOutput /\ ValidLat

(***************************************************************************)
(* Machine: the same resolution BY NAME through the alias map              *)
(***************************************************************************)
RECURSIVE Over(_, _, _)
Over(m, pairs, i) == IF i > Len(pairs) THEN m ELSE Over([m EXCEPT ![pairs[i][1]] = pairs[i][2]], pairs, i + 1)
Names == Bare \cup TAliases \cup SAliases \cup {TblName([s |-> s, n |-> n]) : s \in Schemas, n \in Bare}
Empty == [x \in Names |-> 0]
AliasPairs == [i \in DOMAIN rels |-> <<Exposed(rels[i]), i>>]                                  \* has_alias edges (alias defaults to the bare name)
TblIdx == SelectSeq([i \in DOMAIN rels |-> i], LAMBDA i : rels[i].k = "tbl")
BarePairs == [j \in DOMAIN TblIdx |-> <<rels[TblIdx[j]].n, TblIdx[j]>>]
FullPairs == [j \in DOMAIN TblIdx |-> <<TblName(rels[TblIdx[j]]), TblIdx[j]>>]
MapIntended == Over(Over(Over(Empty, BarePairs, 1), FullPairs, 1), AliasPairs, 1)                \* aliases shadow bare names
MapOld == Over(Over(Over(Empty, AliasPairs, 1), BarePairs, 1), FullPairs, 1)                     \* alias_map | unqualified_map | qualified_map
Map == IF "D_ALIAS_MAP_PRECEDENCE" \in Known THEN MapOld ELSE MapIntended
\* the qualifier text of a reference to relation i is its exposed name; the machine looks that text up
MachineRel(i) == Map[Exposed(rels[i])]
MachineSrcOfRef(ref) == IF ref.r > 0 /\ ~Outside(ref.r) THEN SrcOfRel(MachineRel(ref.r), ref.c) ELSE SrcOfRef(ref)
\* lateral aliases in the machine: a dictionary from alias text to the sources resolved for that item, filled item by item in
\* select-list order (an item registers itself after it was resolved, so it never sees its own alias); a source column whose
\* NAME is in the dictionary is replaced unless one of its candidate relations is known to have it.
\* D_LCA_IGNORES_DATASET: the replacement is made without asking whether a relation in scope has the column
MLatApplies(c) == IF "D_LCA_IGNORES_DATASET" \in Known THEN lca /\ ProviderInUse ELSE LatApplies(c)
RECURSIVE MachineItemSrcs(_)
MachineItemSrcs(j) == UNION {IF items[j].refs[m].r = Lat
                             THEN (IF MLatApplies(items[j].refs[m].c) /\ LatItem(items[j].refs[m].c) < j
                                   THEN MachineItemSrcs(LatItem(items[j].refs[m].c))
                                   ELSE MachineSrcOfRef([r |-> 0, c |-> items[j].refs[m].c]))
                             ELSE MachineSrcOfRef(items[j].refs[m]) : m \in DOMAIN items[j].refs}
MachineFlowItem(j) == LET it == items[j] IN
   IF Len(it.refs) = 1 /\ it.refs[1].c = Star
   THEN UNION {StarOf(i) : i \in (IF it.refs[1].r > 0 THEN {MachineRel(it.refs[1].r)} ELSE DOMAIN rels)}
   ELSE {<<s, TgtName(j)>> : s \in MachineItemSrcs(j)}
MachineFlow == UNION {MachineFlowItem(j) : j \in DOMAIN items} \cup FlowBranch2
MachineFlowExact == (phase = "done" /\ ValidProgram) => MachineFlow = Flow

Program == [kind |-> kind, rels |-> rels, items |-> items, branch2 |-> branch2, collist |-> collist, known |-> known, tk |-> tk, lca |-> lca]
EmitCase == (Emit /\ phase = "done" /\ ValidProgram) => PrintT(<<"CASE", ToJson([prog |-> Program, flow |-> Flow])>>)
=============================================================================
