----------------------------- MODULE Trace_Stmt -----------------------------
(***************************************************************************)
(* Trace validation for C01 (and the table part of C07/C08/C09/C14): a     *)
(* trace is a statement as its grammar events - each consumed by the       *)
(* corresponding action of Stmt.tla (IsEvent /\ Action /\ logged event =   *)
(* appended event) - followed by the "result" event: the source and target *)
(* tables the real analyser reported for a rendering of that program.      *)
(* Verdict: ok (equals the ideal BaseTables/Target), known:<deviations>    *)
(* (rejected by the ideal but equal to the deviant track and every fired   *)
(* deviation is in Known), or the failing clause.                          *)
(***************************************************************************)
EXTENDS Stmt, IOUtils
Traces == JsonDeserialize(IOEnv.TRACE_FILE)
VARIABLES tid, l, verdict
T == Traces[tid]
ToSet(s) == {s[i] : i \in DOMAIN s}
TInit == Init /\ tid \in 1..Len(Traces) /\ ds = Traces[tid].ds /\ l = 1 /\ verdict = "run"
Same(e, f) == e.e = f.e /\ e.a = f.a /\ e.b = f.b /\ e.c = f.c
RECURSIVE JoinNames(_)
JoinNames(S) == IF S = {} THEN "" ELSE LET x == CHOOSE x \in S : TRUE IN x \o (IF S = {x} THEN "" ELSE "+" \o JoinNames(S \ {x}))
Final == LET reads == ToSet(T.reads)  tgt == ToSet(T.target) IN
   IF T.exc # "none" THEN "raises:" \o T.exc
   ELSE IF tgt # Target(prog) THEN "target_exact"
   ELSE IF reads = BaseTables(prog) THEN "ok"
   ELSE IF reads = ResultDev /\ fired # {} /\ fired \subseteq Known THEN "known:" \o JoinNames(fired)
   ELSE IF \E t \in reads : t \notin BaseTables(prog) THEN "reports_table_not_read"
   ELSE "misses_table_read"
TNext == /\ verdict = "run"
         /\ IF l <= Len(T.prog)
            THEN /\ Next /\ Same(prog'[Len(prog')], T.prog[l]) /\ Len(prog') = l
                 /\ l' = l + 1 /\ UNCHANGED verdict
            ELSE /\ verdict' = (IF phase = "done" THEN Final ELSE "program_incomplete") /\ UNCHANGED <<vars, l>>
         /\ UNCHANGED tid
\* a logged event that no action of the specification can produce ends the trace
Stuck == verdict = "run" /\ l <= Len(T.prog) /\ ~ENABLED (Next /\ Same(prog'[Len(prog')], T.prog[l]) /\ Len(prog') = l)
TStuck == Stuck /\ verdict' = "event_not_in_grammar" /\ UNCHANGED <<vars, tid, l>>
TSpec == TInit /\ [][TNext \/ TStuck]_<<vars, tid, l, verdict>>
Report == verdict # "run" => PrintT(<<"VERDICT", tid, l, verdict>>)
=============================================================================
