---- MODULE MC_Config ----
EXTENDS Config
EnvAll == { [k \in Keys |-> Unset],
            [k \in Keys |-> IF k = "S" THEN "e" ELSE "s_true"],
            [k \in Keys |-> IF k = "S" THEN Unset ELSE "s_0"] }
EnvOne == { [k \in Keys |-> IF k = "S" THEN "e" ELSE "s_true"] }
\* generation only: behaviours are explored up to renaming of threads and identifiers
Canon == Len(hist) > 0 => (hist[1].t = "t1" /\ hist[1].id = "i1")
====
