-------------------------------- MODULE Chain --------------------------------
(***************************************************************************)
(* S3 at column level across statements (C04).  A behaviour is a script of *)
(* 2-4 data-moving statements; statement k writes the k-th table of        *)
(* Targets and reads the base table src or an earlier target:              *)
(*   mk(from, items)   INSERT INTO t SELECT c [AS d], ... FROM from         *)
(*   expr(from)        INSERT INTO t SELECT a + b AS s FROM from            *)
(*   star(from)        INSERT INTO t SELECT * FROM from                     *)
(*   unq(from, c)      INSERT INTO t SELECT c FROM from JOIN oth ON ...     *)
(* State: cols[t] = the columns the script has established for t (what the *)
(* run's session metadata holds), edges = direct column dependencies.      *)
(* Ideal: EndToEnd = relational composition of the per-statement flows;    *)
(* columns not consumed downstream end at the intermediate table; with a   *)
(* provider in use SELECT * from an earlier target expands to its columns; *)
(* an unqualified column that an earlier target defines is attributed to   *)
(* it.                                                                     *)
(***************************************************************************)
EXTENDS Naturals, Sequences, FiniteSets, TLC, Json
CONSTANTS MaxStmts, Provider, Emit, Known

Targets == <<"m1", "m2", "m3", "fin">>
Base == "src"
ColPool == {"a", "b"}
Unknown == <<"?">>
Items == { <<[c |-> "a", al |-> "a"]>>, <<[c |-> "a", al |-> "a"], [c |-> "b", al |-> "b"]>>, <<[c |-> "a", al |-> "z"]>>, <<[c |-> "b", al |-> "a"]>> }
VARIABLES script, cols, edges, unres
vars == <<script, cols, edges, unres>>
ToSet(s) == {s[i] : i \in DOMAIN s}
Atom(t, c) == <<t, c>>
Init == script = <<>> /\ cols = [t \in {Base} |-> Unknown] /\ edges = {} /\ unres = {}
Written == DOMAIN cols \ {Base}
Tgt == Targets[Len(script) + 1]
Has(t, c) == cols[t] = Unknown \/ c \in ToSet(cols[t])
Mk == \E f \in DOMAIN cols, it \in Items :
        /\ \A i \in DOMAIN it : Has(f, it[i].c)
        /\ script' = Append(script, [k |-> "mk", f |-> f, items |-> it, c |-> "none"])
        /\ edges' = edges \cup {<<Atom(f, it[i].c), Atom(Tgt, it[i].al)>> : i \in DOMAIN it}
        /\ cols' = [t \in DOMAIN cols \cup {Tgt} |-> IF t = Tgt THEN [i \in DOMAIN it |-> it[i].al] ELSE cols[t]]
        /\ UNCHANGED unres
Expr == \E f \in DOMAIN cols :
        /\ Has(f, "a") /\ Has(f, "b")
        /\ script' = Append(script, [k |-> "expr", f |-> f, items |-> <<>>, c |-> "none"])
        /\ edges' = edges \cup {<<Atom(f, "a"), Atom(Tgt, "s")>>, <<Atom(f, "b"), Atom(Tgt, "s")>>}
        /\ cols' = [t \in DOMAIN cols \cup {Tgt} |-> IF t = Tgt THEN <<"s">> ELSE cols[t]]
        /\ UNCHANGED unres
\* SELECT *: expands to the columns established for f when a provider is in use (session metadata); else a wildcard edge
StarS == \E f \in DOMAIN cols :
        /\ script' = Append(script, [k |-> "star", f |-> f, items |-> <<>>, c |-> "none"])
        /\ IF Provider /\ cols[f] # Unknown /\ cols[f] # <<>>
           THEN /\ edges' = edges \cup {<<Atom(f, cols[f][i]), Atom(Tgt, cols[f][i])>> : i \in DOMAIN cols[f]}
                /\ cols' = [t \in DOMAIN cols \cup {Tgt} |-> IF t = Tgt THEN cols[f] ELSE cols[t]]
           ELSE /\ edges' = edges \cup {<<Atom(f, "*"), Atom(Tgt, "*")>>}
                /\ cols' = [t \in DOMAIN cols \cup {Tgt} |-> IF t = Tgt THEN <<>> ELSE cols[t]]
        /\ UNCHANGED unres
\* an unqualified column over "f JOIN oth" stays pending until the whole script is known: it is attributed to f when the
\* script - any statement of it - establishes that f has the column (f was created with it, or a resolved reference names it)
Unq == \E f \in DOMAIN cols, c \in ColPool :
        /\ Has(f, c)
        /\ script' = Append(script, [k |-> "unq", f |-> f, items |-> <<>>, c |-> c])
        /\ unres' = unres \cup {[f |-> f, c |-> c, t |-> Tgt, tc |-> c]}
        /\ cols' = [t \in DOMAIN cols \cup {Tgt} |-> IF t = Tgt THEN <<c>> ELSE cols[t]]
        /\ UNCHANGED edges
\* the same unqualified column feeding two target columns:  SELECT c AS x2, c AS y2 FROM f JOIN oth
Unq2 == \E f \in DOMAIN cols, c \in ColPool :
        /\ Has(f, c)
        /\ script' = Append(script, [k |-> "unq2", f |-> f, items |-> <<>>, c |-> c])
        /\ unres' = unres \cup {[f |-> f, c |-> c, t |-> Tgt, tc |-> "x2"], [f |-> f, c |-> c, t |-> Tgt, tc |-> "y2"]}
        /\ cols' = [t \in DOMAIN cols \cup {Tgt} |-> IF t = Tgt THEN <<"x2", "y2">> ELSE cols[t]]
        /\ UNCHANGED edges
Next == Len(script) < MaxStmts /\ (Mk \/ Expr \/ StarS \/ Unq \/ Unq2)
Spec == Init /\ [][Next]_vars

\* ---- the pending unqualified references, resolved against everything the script established
Established == {e[1] : e \in edges} \cup {e[2] : e \in edges} \cup {Atom(p.t, p.tc) : p \in unres}
SrcOfPending(p) == IF Atom(p.f, p.c) \in Established THEN Atom(p.f, p.c) ELSE Atom("?" \o p.f \o "|oth", p.c)
AllEdges == edges \cup {<<SrcOfPending(p), Atom(p.t, p.tc)>> : p \in unres}
\* ---- end-to-end pairs: roots -> leaves of the composed dependency relation
Nodes == {e[1] : e \in AllEdges} \cup {e[2] : e \in AllEdges}
Roots == {n \in Nodes : ~\E e \in AllEdges : e[2] = n}
Leaves == {n \in Nodes : ~\E e \in AllEdges : e[1] = n}
RECURSIVE Reach(_, _)
Reach(frontier, seen) == LET nxt == {e[2] : e \in {f \in AllEdges : f[1] \in frontier}} \ seen IN
                         IF nxt = {} THEN seen ELSE Reach(nxt, seen \cup nxt)
\* two unqualified references to one column name over different candidate tables (KF-C04-1's territory: an unresolved
\* column is identified by its name only, so the two are one graph node before either is resolved)
SameNameDifferentCandidates == \E p, q \in unres : p.c = q.c /\ p.f # q.f
EndToEnd == {<<r, l>> : r \in Roots, l \in Leaves} \cap UNION {{<<r, l>> : l \in Reach({r}, {})} : r \in Roots}
\* composition: what reaches a leaf started at a root; nothing starts inside (every non-root has a producer)
UnconsumedEndAtIntermediate == \A l \in Leaves : l[1] \in Written \/ l[1] = "fin"
ChainsCompose == \A p \in EndToEnd : p[1] \in Roots /\ p[2] \in Leaves
EmitCase == (Emit /\ Len(script) >= 2) =>
   PrintT(<<"CASE", ToJson([script |-> script, pairs |-> EndToEnd, provider |-> Provider, samename |-> SameNameDifferentCandidates])>>)
=============================================================================
