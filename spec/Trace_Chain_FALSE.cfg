SPECIFICATION TSpec
CONSTANTS
  MaxStmts = 9
  Provider = FALSE
  Emit = FALSE
  Known = {}
INVARIANT Report
CHECK_DEADLOCK FALSE
