SPECIFICATION TSpec
CONSTANTS
  MaxSegs = 99
  Segs = {}
  Known = {}
  Emit = FALSE
INVARIANT Report
CHECK_DEADLOCK FALSE
