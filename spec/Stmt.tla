-------------------------------- MODULE Stmt --------------------------------
(***************************************************************************)
(* S2 - single-statement analysis at table level (C01; C07/C08/C09/C14 use *)
(* its programs).  A behaviour BUILDS a statement one grammar event at a   *)
(* time - a pre-order walk with explicit ends - so a behaviour is a        *)
(* program and BFS to depth N enumerates every program of <= N events:     *)
(*                                                                         *)
(*   stmt(kind)            insert | ctas | view | update | merge | query | *)
(*                         delete (moves no data)                          *)
(*   cte(name) ... end     a WITH entry and its body query                 *)
(*   main                  the statement's own query starts                *)
(*   tbl(join, schema, name) / cteref(join, name)   a FROM item            *)
(*   selfref(join, name)   the CTE being defined, read in the second       *)
(*                         branch of its own body (a recursive CTE)        *)
(*   sub(join) ... end     a derived table                                 *)
(*   paren(join) ... end   a parenthesised join  ( t1 JOIN t2 ON .. )      *)
(*   where ... end         a subquery in WHERE (a second one directly      *)
(*                         after it: the other side of the comparison)     *)
(*   isub ... end          a scalar subquery in the select list            *)
(*   having ... end        a subquery in HAVING                            *)
(*   on ... end            a subquery in the ON condition of the join just *)
(*                         written                                         *)
(*   union                 next branch of the enclosing query              *)
(*   ubranch ... end       next branch, itself a parenthesised query (with *)
(*                         branches of its own): a nested set operation    *)
(*   end                   closes the innermost open query                 *)
(* join = first | comma | inner.  The generator decides cteref/tbl by what *)
(* the name MEANS in SQL (a CTE is visible after its definition); the      *)
(* machine looks names up the way the extractors do.                       *)
(*                                                                         *)
(* Ideal layer: BaseTables(prog), Target(prog) - read off the program.     *)
(* Machine layer: a stack of SELECT frames shaped like the extractors      *)
(* (from_expression groups, subqueries collected per clause, CTE env),     *)
(* two result tracks: out (intended mechanism) and outDev (with the        *)
(* deviations in Known switched on); fired = deviations that mattered.     *)
(*   D_COMMA_JOIN_DROPS_JOINED   with several comma-separated FROM groups  *)
(*                               only the first element of each is visited *)
(*   D_SCALAR_SUBQUERY_BLIND     a subquery directly in the select list is *)
(*                               not searched                              *)
(*   D_HAVING_SUBQUERY_BLIND     a subquery in HAVING is not searched      *)
(*   D_ON_SUBQUERY_BLIND         a subquery in a JOIN ... ON condition is  *)
(*                               not searched (repaired: KF-C01-9)         *)
(*   D_NESTED_SET_OPERATION_BLIND  a parenthesised branch that is a set    *)
(*                               operation itself is skipped (KF-C01-10)   *)
(*   D_CTE_VISIBLE_IN_OWN_BODY   a CTE is registered before its body is    *)
(*                               extracted, so its own name inside the     *)
(*                               body resolves to itself, not to the table *)
(***************************************************************************)
EXTENDS Naturals, Sequences, FiniteSets, TLC, Json

CONSTANTS MaxEv, MaxDepth, MaxRel, MaxCte, TblNames, CteNames, Schemas, Kinds, Known, Emit, Clauses, DefSchemas

None == "none"
Ev(e, a, b, c) == [e |-> e, a |-> a, b |-> b, c |-> c]
Moves(k) == k \in {"insert", "ctas", "view", "update", "merge", "query", "select_into"}
HasTarget(k) == k \in {"insert", "ctas", "view", "update", "merge", "select_into"}

VARIABLES ds,      \* the configured default schema ("none": not set) - C14
          prog,    \* the events so far (the input)
          stack,   \* open SELECT frames
          ctes,    \* names of the CTEs defined so far (visible to later queries)
          phase,   \* start | with | body | done
          out, outDev, fired
vars == <<ds, prog, stack, ctes, phase, out, outDev, fired>>
\* the schema fallback chain: explicit qualifier, configured default, placeholder
Tbl(s, n) == (IF s # None THEN s ELSE IF ds # None THEN ds ELSE "<default>") \o "." \o n

\* a frame = one query scope.  groups: the comma-separated from_expressions, each a sequence of relation
\* contributions <<intended set of tables, deviant set>>; extra: tables found through WHERE / select-list / HAVING subqueries
Frame(role) == [role |-> role, groups |-> <<>>, extra |-> {}, extraDev |-> {}, acc |-> {}, accDev |-> {},
                wh |-> 0,          \* subqueries in this branch's WHERE so far (two: both sides of one comparison, clause "where2")
                it |-> FALSE, hv |-> FALSE, br |-> 1,
                on |-> FALSE,      \* the last FROM item was joined with ON and its condition has no subquery yet
                nb |-> FALSE]      \* the last branch was a nested set operation: the query can only end now
Top == stack[Len(stack)]
SetTop(f) == [stack EXCEPT ![Len(stack)] = f]
Pop == SubSeq(stack, 1, Len(stack) - 1)
Room == Len(prog) < MaxEv
RECURSIVE SumLen(_, _)
SumLen(g, i) == IF i = 0 THEN 0 ELSE Len(g[i]) + SumLen(g, i - 1)
NRel(f) == SumLen(f.groups, Len(f.groups))
AddRel(f, join, c, cd) ==
   IF join \in {"first", "comma"} THEN [f EXCEPT !.groups = Append(@, << <<c, cd>> >>), !.on = FALSE]
   ELSE [f EXCEPT !.groups[Len(f.groups)] = Append(@, <<c, cd>>), !.on = TRUE]
InParen == stack # <<>> /\ Top.role \in {"paren:first", "paren:comma", "paren:inner"}
Joins == IF Top.groups = <<>> THEN {"first"} ELSE IF InParen THEN {"inner"} ELSE {"inner", "comma"}
Contribution(f) == UNION {UNION {f.groups[i][j][1] : j \in DOMAIN f.groups[i]} : i \in DOMAIN f.groups}
Mixed(f) == Len(f.groups) > 1 /\ \E i \in DOMAIN f.groups : Len(f.groups[i]) > 1
ContributionDev(f) ==
   IF "D_COMMA_JOIN_DROPS_JOINED" \in Known /\ Len(f.groups) > 1
   THEN UNION {f.groups[i][1][2] : i \in DOMAIN f.groups}
   ELSE UNION {UNION {f.groups[i][j][2] : j \in DOMAIN f.groups[i]} : i \in DOMAIN f.groups}
CloseBranch(f) == [f EXCEPT !.acc = @ \cup Contribution(f) \cup f.extra, !.accDev = @ \cup ContributionDev(f) \cup f.extraDev,
                            !.groups = <<>>, !.extra = {}, !.extraDev = {}, !.wh = 0, !.it = FALSE, !.hv = FALSE, !.on = FALSE]
\* which cte body are we in (outermost frame's role when it is a cte)
InCteBody == IF stack # <<>> /\ stack[1].role \notin {"top"} THEN stack[1].role ELSE None

Init == ds \in DefSchemas /\ prog = <<>> /\ stack = <<>> /\ ctes = {} /\ phase = "start" /\ out = {} /\ outDev = {} /\ fired = {}

Start == /\ phase = "start" /\ \E k \in Kinds : prog' = <<Ev("stmt", k, None, None)>>
         /\ phase' = "with" /\ UNCHANGED <<ds, stack, ctes, out, outDev, fired>>
StmtKind == prog[1].a
\* WITH goes in front of the query (insert, ctas, view, query, select into) or in front of the statement (update, merge, delete)
CteOpen == /\ phase = "with" /\ Room /\ Cardinality(ctes) < MaxCte
           /\ StmtKind \in {"insert", "ctas", "view", "query", "select_into", "update", "merge", "delete"}
           /\ \E n \in CteNames \ ctes :
                prog' = Append(prog, Ev("cte", n, None, None)) /\ stack' = <<[Frame("cte") EXCEPT !.role = n]>>
           /\ phase' = "body" /\ UNCHANGED <<ds, ctes, out, outDev, fired>>
Main == /\ phase = "with" /\ Room /\ prog' = Append(prog, Ev("main", None, None, None)) /\ stack' = <<Frame("top")>>
        /\ phase' = "body" /\ UNCHANGED <<ds, ctes, out, outDev, fired>>
\* a FROM name.  What it means: an undotted name equal to a CTE defined EARLIER is that CTE; anything else is a table.
\* What the machine does: looks the undotted name up among the registered CTEs - under D_CTE_VISIBLE_IN_OWN_BODY that
\* includes the CTE whose body is being read.
FromName == /\ phase = "body" /\ Room /\ NRel(Top) < MaxRel /\ ~Top.nb
            /\ \E j \in Joins, s \in Schemas, n \in TblNames \cup ctes :
                 LET meantCte == (s = None /\ n \in ctes)
                     selfCte == ("D_CTE_VISIBLE_IN_OWN_BODY" \in Known /\ s = None /\ n = InCteBody)
                     c == IF meantCte THEN {} ELSE {Tbl(s, n)}
                     cd == IF meantCte \/ selfCte THEN {} ELSE {Tbl(s, n)} IN
                 /\ prog' = Append(prog, Ev(IF meantCte THEN "cteref" ELSE "tbl", j, s, n))
                 /\ stack' = SetTop(AddRel(Top, j, c, cd))
                 /\ fired' = IF c # cd THEN fired \cup {"D_CTE_VISIBLE_IN_OWN_BODY"} ELSE fired
            /\ UNCHANGED <<ds, ctes, phase, out, outDev>>
\* a recursive CTE: the second branch of the CTE's own body reads the CTE that is being defined,
\*   WITH [RECURSIVE] x AS ( SELECT .. FROM base UNION ALL SELECT .. FROM x JOIN .. ) ...
\* There the name is the CTE itself (with the keyword in every dialect; without it in the dialects that have no such keyword:
\* tsql, oracle, db2) and never a table.  D_SELFREF_AS_TABLE: the CTE is not yet registered when its body is read.
FromSelf == /\ phase = "body" /\ Room /\ "selfref" \in Clauses /\ Len(stack) = 1 /\ InCteBody # None /\ Top.br = 2 /\ NRel(Top) < MaxRel /\ ~Top.nb
            /\ ~\E i \in DOMAIN prog : prog[i].e = "selfref"
            /\ \E j \in Joins :
                 LET cd == IF "D_SELFREF_AS_TABLE" \in Known THEN {Tbl(None, InCteBody)} ELSE {} IN
                 /\ prog' = Append(prog, Ev("selfref", j, None, InCteBody))
                 /\ stack' = SetTop(AddRel(Top, j, {}, cd))
                 /\ fired' = IF cd # {} THEN fired \cup {"D_SELFREF_AS_TABLE"} ELSE fired
            /\ UNCHANGED <<ds, ctes, phase, out, outDev>>
Push(ev, role, f) == /\ phase = "body" /\ Room /\ Len(stack) <= MaxDepth /\ prog' = Append(prog, ev)
                     /\ stack' = Append(SetTop(f), Frame(role)) /\ UNCHANGED <<ds, ctes, phase, out, outDev, fired>>
FromSub == /\ phase = "body" /\ NRel(Top) < MaxRel /\ ~Top.nb /\ \E j \in Joins : Push(Ev("sub", j, None, None), "derived:" \o j, Top)
\* a parenthesised join is a FROM item made of FROM items: it opens a frame that takes relations only
FromParen == /\ phase = "body" /\ NRel(Top) < MaxRel /\ "paren" \in Clauses /\ ~Top.nb
             /\ \E j \in Joins : Push(Ev("paren", j, None, None), "paren:" \o j, Top)
WhereSub == /\ phase = "body" /\ NRel(Top) >= 1 /\ Top.wh < (IF "where2" \in Clauses THEN 2 ELSE 1) /\ ~Top.hv /\ "where" \in Clauses /\ ~InParen
            \* the second one directly follows the first: WHERE ( SELECT .. ) > ( SELECT .. )
            /\ (Top.wh = 1 => prog[Len(prog)].e = "end")
            /\ Push(Ev("where", None, None, None), "where", [Top EXCEPT !.wh = @ + 1])
\* an UPDATE ... FROM has no select list, HAVING or set operation of its own
TopOfUpdate == StmtKind = "update" /\ Len(stack) = 1
ItemSub == /\ phase = "body" /\ NRel(Top) >= 1 /\ ~Top.it /\ Top.wh = 0 /\ ~Top.hv /\ "isub" \in Clauses /\ ~TopOfUpdate /\ ~InParen
           /\ Push(Ev("isub", None, None, None), "scalar", [Top EXCEPT !.it = TRUE])
HavingSub == /\ phase = "body" /\ NRel(Top) >= 1 /\ ~Top.hv /\ "having" \in Clauses /\ ~TopOfUpdate /\ ~InParen
             /\ Push(Ev("having", None, None, None), "having", [Top EXCEPT !.hv = TRUE])
\* JOIN x ON c1 IN (SELECT ...): the condition of the join just written reads tables like WHERE does
OnSub == /\ phase = "body" /\ NRel(Top) >= 2 /\ Top.on /\ "on" \in Clauses /\ ~InParen
         /\ Push(Ev("on", None, None, None), "on", [Top EXCEPT !.on = FALSE])
\* the next branch is a parenthesised query with a set operation of its own: SELECT .. UNION ( SELECT .. UNION SELECT .. )
NestedBranch == /\ phase = "body" /\ NRel(Top) >= 1 /\ Top.br < 2 /\ "ubranch" \in Clauses
                /\ Top.role \notin {"where", "scalar", "having", "on"} /\ ~TopOfUpdate /\ ~InParen
                /\ Push(Ev("ubranch", None, None, None), "setbranch", [CloseBranch(Top) EXCEPT !.br = @ + 1, !.nb = TRUE])
Union == /\ phase = "body" /\ Room /\ NRel(Top) >= 1 /\ Top.br < 2 /\ "union" \in Clauses
         /\ Top.role \notin {"where", "scalar", "having", "on"} /\ ~TopOfUpdate /\ ~InParen
         /\ prog' = Append(prog, Ev("union", None, None, None))
         /\ stack' = SetTop([CloseBranch(Top) EXCEPT !.br = @ + 1])
         /\ fired' = IF Mixed(Top) /\ Contribution(Top) # ContributionDev(Top) THEN fired \cup {"D_COMMA_JOIN_DROPS_JOINED"} ELSE fired
         /\ UNCHANGED <<ds, ctes, phase, out, outDev>>
End == /\ phase = "body" /\ (NRel(Top) >= (IF InParen THEN 2 ELSE 1) \/ Top.nb) /\ (Top.role = "setbranch" => Top.br = 2) /\ prog' = Append(prog, Ev("end", None, None, None)) /\ UNCHANGED ds
       /\ LET f == CloseBranch(Top)
              mixed == Mixed(Top) /\ Contribution(Top) # ContributionDev(Top) IN
          IF Len(stack) = 1
          THEN /\ stack' = <<>> /\ out' = out \cup f.acc /\ outDev' = outDev \cup f.accDev
               /\ fired' = IF mixed THEN fired \cup {"D_COMMA_JOIN_DROPS_JOINED"} ELSE fired
               /\ IF f.role # "top" THEN phase' = "with" /\ ctes' = ctes \cup {f.role} ELSE phase' = "done" /\ ctes' = ctes
          ELSE LET p == stack[Len(stack) - 1]
                   blindS == f.role = "scalar" /\ "D_SCALAR_SUBQUERY_BLIND" \in Known
                   blindH == f.role = "having" /\ "D_HAVING_SUBQUERY_BLIND" \in Known
                   blindO == f.role = "on" /\ "D_ON_SUBQUERY_BLIND" \in Known
                   blindN == f.role = "setbranch" /\ "D_NESTED_SET_OPERATION_BLIND" \in Known IN
               /\ UNCHANGED <<out, outDev, phase, ctes>>
               /\ fired' = fired \cup (IF mixed THEN {"D_COMMA_JOIN_DROPS_JOINED"} ELSE {})
                                 \cup (IF blindS /\ f.accDev # {} THEN {"D_SCALAR_SUBQUERY_BLIND"} ELSE {})
                                 \cup (IF blindH /\ f.accDev # {} THEN {"D_HAVING_SUBQUERY_BLIND"} ELSE {})
                                 \cup (IF blindO /\ f.accDev # {} THEN {"D_ON_SUBQUERY_BLIND"} ELSE {})
                                 \cup (IF blindN /\ f.accDev # {} THEN {"D_NESTED_SET_OPERATION_BLIND"} ELSE {})
               /\ stack' = [Pop EXCEPT ![Len(stack) - 1] =
                    IF f.role \in {"where", "scalar", "having", "on"}
                    THEN [p EXCEPT !.extra = @ \cup f.acc, !.extraDev = @ \cup (IF blindS \/ blindH \/ blindO THEN {} ELSE f.accDev)]
                    ELSE IF f.role = "setbranch"
                    THEN [p EXCEPT !.acc = @ \cup f.acc, !.accDev = @ \cup (IF blindN THEN {} ELSE f.accDev)]
                    ELSE AddRel(p, IF f.role \in {"derived:first", "paren:first"} THEN "first"
                                   ELSE IF f.role \in {"derived:comma", "paren:comma"} THEN "comma" ELSE "inner",
                                f.acc, f.accDev)]
Next == Start \/ CteOpen \/ Main \/ FromName \/ FromSelf \/ FromSub \/ FromParen \/ WhereSub \/ ItemSub \/ HavingSub \/ OnSub \/ Union \/ NestedBranch \/ End
Spec == Init /\ [][Next]_vars

\* ---------------------------------------------------------------- the property, read off the program alone
BaseTables(p) == IF Moves(p[1].a) THEN {Tbl(p[i].b, p[i].c) : i \in {j \in DOMAIN p : p[j].e = "tbl"}} ELSE {}
Target(p) == IF HasTarget(p[1].a) THEN {Tbl(None, "tgt")} ELSE {}
LocalNames(p) == {p[i].a : i \in {j \in DOMAIN p : p[j].e = "cte"}}
Result == IF Moves(StmtKind) THEN out ELSE {}
ResultDev == IF Moves(StmtKind) THEN outDev ELSE {}
MachineTablesExact == phase = "done" => Result = BaseTables(prog)
LocalsNeverReported == phase = "done" =>
   \A n \in LocalNames(prog) : Tbl(None, n) \in Result => \E i \in DOMAIN prog : prog[i].e = "tbl" /\ Tbl(prog[i].b, prog[i].c) = Tbl(None, n)
NoopReportsNothing == (phase = "done" /\ ~Moves(StmtKind)) => Result = {}
\* C14: a default schema means exactly "every unqualified name written as S.name": the report under default S of the
\* program equals the report of the textually qualified program without default (both are BaseTables over Tbl)
Qualified(p) == [i \in DOMAIN p |-> IF p[i].e = "tbl" /\ p[i].b = None /\ ds # None THEN [p[i] EXCEPT !.b = ds] ELSE p[i]]
DefaultEqualsQualified == phase = "done" => BaseTables(prog) = BaseTables(Qualified(prog))
DeviantTablesExact == phase = "done" => ResultDev = BaseTables(prog)      \* expected to FAIL when Known # {}: yields the witness
DeviationsAccountedFor == phase = "done" => (ResultDev # Result => fired # {})

Count == (phase = "done") => TLCSet(1, TLCGet(1) + 1)
EmitCase == (Emit /\ phase = "done") =>
   PrintT(<<"CASE", ToJson([prog |-> prog, reads |-> Result, target |-> Target(prog), dev |-> ResultDev, fired |-> fired])>>)
=============================================================================
