SPECIFICATION TSpec
CONSTANTS
  Cases = {"low", "UP", "Mixed"}
  Quotes = {"none", "dq", "bt", "br"}
  Positions = {"from", "target", "target_column", "alias_def", "next_stmt_from", "next_stmt_colref", "collist", "qualifier", "next_stmt_colref_after_rename", "table_qualifier"}
  Known = {}
  Emit = FALSE
  MaxParts = 3
INVARIANT Report
CHECK_DEADLOCK FALSE
