----------------------------- MODULE Trace_Chain -----------------------------
(***************************************************************************)
(* Trace validation for C04: the script's statements are re-taken through  *)
(* Chain's actions (event stmt(k, kind, from, items)), then the observed   *)
(* end-to-end (first, last) column pairs of the real run must equal        *)
(* EndToEnd, the composition of the per-statement flows.                   *)
(***************************************************************************)
EXTENDS Chain, IOUtils
Traces == JsonDeserialize(IOEnv.TRACE_FILE)
VARIABLES tid, l, verdict
T == Traces[tid]
St(s) == [k |-> s.k, f |-> s.f, items |-> [i \in DOMAIN s.items |-> [c |-> s.items[i].c, al |-> s.items[i].al]], c |-> s.c]
Obs == {<<<<p[1][1], p[1][2]>>, <<p[2][1], p[2][2]>>>> : p \in ToSet(T.pairs)}
Final == IF T.exc # "none" THEN "raises:" \o T.exc
         ELSE IF Obs = EndToEnd THEN "ok"
         ELSE IF \E p \in EndToEnd \ Obs : p[2][1] = "fin" THEN "chain_to_final_target_missing"
         ELSE IF \E p \in EndToEnd \ Obs : TRUE THEN "pair_missing"
         ELSE IF \E p \in Obs \ EndToEnd : p[1][1] \notin {q[1][1] : q \in EndToEnd} THEN "source_column_of_unrelated_table"
         ELSE "pair_not_in_composition"
TNext == /\ verdict = "run"
         /\ IF l <= Len(T.script)
            THEN Next /\ script'[Len(script')] = St(T.script[l]) /\ l' = l + 1 /\ UNCHANGED verdict
            ELSE verdict' = Final /\ UNCHANGED <<vars, l>>
         /\ UNCHANGED tid
TInit == Init /\ tid \in 1..Len(Traces) /\ l = 1 /\ verdict = "run"
TSpec == TInit /\ [][TNext]_<<vars, tid, l, verdict>>
Report == verdict # "run" => PrintT(<<"VERDICT", tid, l, verdict>>)
=============================================================================
