---------------------------- MODULE Trace_Config ----------------------------
(***************************************************************************)
(* Trace validation for C15: every recorded execution of the real          *)
(* _SQLLineageConfigLoader is checked against the IDEAL layer of Config    *)
(* (ghost scopes, Visible, outcome contract) - never against tcfg/inctx    *)
(* mechanics, so a refactoring that keeps the property is accepted.        *)
(*                                                                         *)
(* Two trace granularities share one event vocabulary:                     *)
(*   start/end  thread t obtained / released identifier id                 *)
(*   op         one whole operation ran (op-level replay of TLC behaviours)*)
(*   q          thread t executed one line of config.py (scheduler quantum)*)
(*   ret        thread t's operation returned res (line-level traces)      *)
(* Every event carries the views (what each live thread reads for each key *)
(* - obtained by real reads in that thread) and the projected state.       *)
(* The verdict is total: the first failing clause is named, the spec never *)
(* blocks, and the rest of the batch is still checked.                     *)
(***************************************************************************)
EXTENDS Config, IOUtils

Traces == JsonDeserialize(IOEnv.TRACE_FILE)

VARIABLES tid, l, live, pv, verdict
tvars == <<tid, l, live, pv, verdict>>

ToSet(s) == {s[i] : i \in DOMAIN s}
Ev == Traces[tid].ev[l]
N == Len(Traces[tid].ev)
ViewSet(e) == {<<v[1], v[2], v[3]>> : v \in ToSet(e.views)}
ViewOf(V, t, k) == IF \E v \in V : v[1] = t /\ v[2] = k THEN (CHOOSE v \in V : v[1] = t /\ v[2] = k)[3] ELSE "absent"
KwOf(e) == [i \in DOMAIN e.kw |-> <<e.kw[i][1], e.kw[i][2]>>]

TInit == /\ tid \in 1..Len(Traces) /\ l = 1 /\ verdict = "run"
         /\ env = Traces[tid].env
         /\ ghost = [t \in Threads |-> <<>>] /\ live = [t \in Threads |-> FALSE] /\ pv = {}
         /\ tcfg = {} /\ present = {} /\ inctx = {} /\ ident = [t \in Threads |-> None]
         /\ ctl = [t \in Threads |-> Dead] /\ depth = [t \in Threads |-> 0] /\ nops = 0 /\ hist = <<>>

\* ---- what the statement says each operation returns / raises, and what it does to the thread's scopes
Expected(e) == CASE e.op = "open" -> IF HasBad(KwOf(e)) \/ Len(ghost[e.t]) > 0 THEN "ConfigException" ELSE "ok"
                 [] e.op = "read" -> VisibleIn(ghost[e.t], e.k)
                 [] e.op = "assign" -> "ConfigException"
                 [] e.op = "raise" -> "Boom"
                 [] e.op = "close" -> "ok"
                 [] OTHER -> e.res
PopTop(s) == IF Len(s) = 0 THEN s ELSE SubSeq(s, 1, Len(s) - 1)
GhostAfter(e) == LET s == ghost[e.t] IN
   CASE e.op = "open" /\ Expected(e) = "ok" -> Append(s, KwMap(KwOf(e)))
     [] e.op = "open" /\ Expected(e) # "ok" /\ e.onerr = "propagate" -> PopTop(s)   \* the enclosing scope ended by exception
     [] e.op \in {"raise", "close"} -> PopTop(s)
     [] OTHER -> s

\* ---- clauses; each yields "ok" or the name of what failed
OthersUnchanged(e, V) == \A u \in Threads \ {e.t} : (live[u] /\ u # e.t) =>
                             \A k \in Keys : ViewOf(V, u, k) = ViewOf(pv, u, k)
OwnMatches(t, G, V) == \A k \in Keys : ViewOf(V, t, k) = VisibleIn(G, k)
AllMatch(G, L, V) == \A u \in Threads : L[u] => OwnMatches(u, G[u], V)
\* nothing stored for an identifier that no live thread holds (a later thread re-using it would read it)
IdentsHeld(e) == {h[2] : h \in ToSet(e.held)}
Residue(e) == \/ \E x \in ToSet(e.tcfg) : x[1] \notin IdentsHeld(e)
              \/ \E i \in ToSet(e.inctx) : i \notin IdentsHeld(e)
\* a thread outside every scope has nothing stored under its identifier
QuietResidue(e, G) == Len(G) = 0 /\ (\/ \E x \in ToSet(e.tcfg) : x[1] = e.id
                                     \/ e.id \in ToSet(e.inctx))

Check(e) ==
   CASE e.e = "start" ->
          IF ~OthersUnchanged(e, ViewSet(e)) THEN "thread_local"
          ELSE IF ~(\A k \in Keys : ViewOf(ViewSet(e), e.t, k) = EnvVal(k)) THEN "fresh_thread_sees_environment"
          ELSE "ok"
     [] e.e = "end" -> IF ~OthersUnchanged(e, ViewSet(e)) THEN "thread_local"
                       ELSE IF Residue(e) THEN "nothing_left_after_scope" ELSE "ok"
     [] e.e = "op" ->
          IF e.res # Expected(e) THEN "outcome_" \o e.op
          ELSE IF ~OthersUnchanged(e, ViewSet(e)) THEN "thread_local"
          ELSE IF ~OwnMatches(e.t, GhostAfter(e), ViewSet(e)) THEN "scoped_view_" \o e.op
          ELSE IF Residue(e) \/ QuietResidue(e, GhostAfter(e)) THEN "nothing_left_after_scope"
          ELSE "ok"
     [] e.e = "ret" -> IF e.res # Expected(e) THEN "outcome_" \o e.op ELSE "ok"
     [] e.e = "q" ->
          IF ~OthersUnchanged(e, ViewSet(e)) THEN "thread_local"
          ELSE IF e.fresh /\ ~OwnMatches(e.t, ghost[e.t], ViewSet(e)) THEN "scoped_view"
          ELSE "ok"
     [] OTHER -> "unknown_event"

TNext == /\ verdict = "run"
         /\ IF l > N
            THEN verdict' = "ok" /\ UNCHANGED <<l, live, pv, ghost, tcfg, inctx>>
            ELSE LET e == Ev  c == Check(e) IN
                 IF c # "ok"
                 THEN verdict' = c /\ UNCHANGED <<l, live, pv, ghost, tcfg, inctx>>
                 ELSE /\ verdict' = "run" /\ l' = l + 1
                      /\ live' = CASE e.e = "start" -> [live EXCEPT ![e.t] = TRUE]
                                   [] e.e = "end" -> [live EXCEPT ![e.t] = FALSE]
                                   [] OTHER -> live
                      /\ ghost' = CASE e.e \in {"op", "ret"} -> [ghost EXCEPT ![e.t] = GhostAfter(e)]
                                    [] e.e = "start" -> [ghost EXCEPT ![e.t] = <<>>]
                                    [] OTHER -> ghost
                      /\ pv' = IF e.e = "ret" THEN pv ELSE ViewSet(e)
                      /\ tcfg' = {<<x[1], x[2], x[3]>> : x \in ToSet(e.tcfg)}
                      /\ inctx' = ToSet(e.inctx)
         /\ UNCHANGED <<tid, env, present, ident, ctl, depth, nops, hist>>
TSpec == TInit /\ [][TNext]_<<vars, tvars>>

Report == verdict # "run" => PrintT(<<"VERDICT", tid, l, verdict>>)
=============================================================================
