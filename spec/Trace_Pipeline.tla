--------------------------- MODULE Trace_Pipeline ---------------------------
(***************************************************************************)
(* Trace validation for C12 / C10(silent): a recorded history of real      *)
(* LineageRunner runs - threads released one statement at a time by the    *)
(* harness, pre-empted before every analyse call and before deregistration *)
(* - is checked against the ideal layer of Pipeline.tla:                   *)
(*   begin(r, p, script, silent, fault)                                    *)
(*   step(r)   one statement of r ran; answers = what every provider       *)
(*             answers for tmp through its public API after the step       *)
(*   exit(r, outcome, seen, warnings)  the run left its session            *)
(* Clauses: result_independent_of_history (outcome and expansions equal    *)
(* Solo), silent_skip_equals_removal, session_empty_outside_runs           *)
(* (a provider no run is using answers as a fresh one), outcome_in_contract*)
(***************************************************************************)
EXTENDS Pipeline, IOUtils
Traces == JsonDeserialize(IOEnv.TRACE_FILE)
VARIABLES tid, l, active, verdict
T == Traces[tid]
Tup(s) == [i \in DOMAIN s |-> s[i]]
Seen(s) == [i \in DOMAIN s |-> Tup(s[i])]
TInit == /\ tid \in 1..Len(Traces) /\ l = 1 /\ verdict = "run" /\ active = [r \in Runs |-> [on |-> FALSE, p |-> None, script |-> <<>>, silent |-> FALSE, fault |-> 0, dia |-> "ansi"]]
         /\ sess = [p \in Provs |-> NoCols] /\ run = [r \in Runs |-> New] /\ log = <<>> /\ pcache = {}
FreshAnswer(p) == IF Base(p) # NoCols THEN Base(p) ELSE Star
InUse(A, p) == \E r \in Runs : A[r].on /\ A[r].p = p
IdleProvidersFresh(A, e) == \A p \in Provs : ~InUse(A, p) => Tup(e.answers[p]) = FreshAnswer(p)
Check(e) ==
   CASE e.e = "begin" -> "ok"
     [] e.e = "step" -> IF ~IdleProvidersFresh(active, e) THEN "session_empty_outside_runs" ELSE "ok"
     [] e.e = "exit" ->
          LET a == active[e.r]
              i == Solo(Tup(a.script), a.p, a.silent, a.fault, a.dia)
              j == Solo(WithoutUnsup(Tup(a.script)), a.p, FALSE, a.fault, a.dia)
              A2 == [active EXCEPT ![e.r].on = FALSE] IN
          IF e.outcome \notin {"ok", "InvalidSyntaxException", "UnsupportedStatementException", "ProviderFault"} THEN "outcome_in_contract"
          ELSE IF e.outcome # i.outcome THEN "result_independent_of_history:outcome"
          ELSE IF Seen(e.seen) # i.seen THEN "result_independent_of_history:expansion"
          ELSE IF a.silent /\ (e.outcome # j.outcome \/ Seen(e.seen) # j.seen) THEN "silent_skip_equals_removal"
          ELSE IF a.silent /\ e.outcome = "ok" /\ e.warnings # Len(Tup(a.script)) - Len(WithoutUnsup(Tup(a.script))) THEN "silent_skip_warns_once_per_statement"
          ELSE IF ~IdleProvidersFresh(A2, e) THEN "session_empty_outside_runs"
          ELSE "ok"
     [] OTHER -> "unknown_event"
TNext == /\ verdict = "run"
         /\ IF l > Len(T.ev) THEN verdict' = "ok" /\ UNCHANGED <<l, active>>
            ELSE LET e == T.ev[l]  c == Check(e) IN
                 IF c # "ok" THEN verdict' = c /\ UNCHANGED <<l, active>>
                 ELSE /\ verdict' = "run" /\ l' = l + 1
                      /\ active' = CASE e.e = "begin" -> [active EXCEPT ![e.r] = [on |-> TRUE, p |-> e.p, script |-> e.script, silent |-> e.silent, fault |-> e.fault, dia |-> e.dia]]
                                     [] e.e = "exit" -> [active EXCEPT ![e.r].on = FALSE]
                                     [] OTHER -> active
         /\ UNCHANGED <<tid, sess, run, log, pcache>>
TSpec == TInit /\ [][TNext]_<<vars, tid, l, active, verdict>>
Report == verdict # "run" => PrintT(<<"VERDICT", tid, l, verdict>>)
=============================================================================
