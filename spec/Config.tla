------------------------------- MODULE Config -------------------------------
(***************************************************************************)
(* S5 - thread-local scoped configuration (sqllineage/config.py), C15/C14. *)
(*                                                                         *)
(* Machine layer: one micro-step per line group of _SQLLineageConfigLoader *)
(*   __call__  : CallValidate, CallEnsure, CallStore(i)                    *)
(*   __enter__ : Enter (mark or reject)                                    *)
(*   __exit__  : ExitPop, ExitUnmark                                       *)
(*   __getattr__ : Read (one dict lookup chain, then environment, default) *)
(*   __setattr__ : Assign (always refused)                                 *)
(* plus the runtime: ThreadStart / ThreadEnd with identifier re-use and    *)
(* exception delivery (caught in place, or unwinding the enclosing scope). *)
(*                                                                         *)
(* Ideal layer: ghost[t] is the stack of override maps of the scopes that  *)
(* thread t opened successfully; Visible(t,k) is what the property says a  *)
(* read must return.  The ideal never looks at tcfg / inctx.               *)
(*                                                                         *)
(* Known = set of deviation names:                                          *)
(*   D_STORE_BEFORE_VALIDATE  __call__ stores keys one by one and rejects   *)
(*                            an unknown key only when it reaches it        *)
(*   D_NESTED_OVERWRITES      nesting is detected only in __enter__, after  *)
(*                            __call__ already overwrote the outer values   *)
(*   D_EXIT_ONLY_ON_SUCCESS, D_TRUTHY_LOOKUP, D_NO_COERCE, D_SHARED_DICT    *)
(*                            mutation-style deviations used by self-tests  *)
(***************************************************************************)
EXTENDS Naturals, Sequences, FiniteSets, TLC, Json

CONSTANTS Threads,     \* model threads
          Idents,      \* identifiers the runtime hands out (re-used after a thread ended)
          MaxOps,      \* bound on operations begun, all threads together
          Known,       \* deviations switched on
          EnvChoices,  \* set of environments [Keys -> raw string or Unset]
          Atomic,      \* TRUE: every operation is one step (replay granularity)
          Record,      \* TRUE: carry the history of operations with their outcome
          KwLevel      \* 1: small keyword-argument pool, 2: full pool

Keys == {"S", "B"}          \* S: a str-typed key, B: a bool-typed key
Bad == "BAD"                \* a key the configuration does not know
Unset == "unset"
None == "none"
RawVals(k) == IF k = "S" THEN {"x", "", "n7", "n1", "f1", "bT"} ELSE {"T", "F", "s_true", "s_0"}
\* "n7" is the integer 7, "T"/"F" the booleans, "s_true"/"s_0" the strings "true"/"0"
\* "n1" / "f1" / "bT" given to the str-typed key: the integer 1, the float 1.0, the boolean True - three values that compare (and
\* hash) equal in the implementation language and must still come back as three different strings
Coerce(k, r) == IF k = "S" THEN (IF r = "n7" THEN "7" ELSE IF r = "n1" THEN "1" ELSE IF r = "f1" THEN "1.0" ELSE IF r = "bT" THEN "True" ELSE r)
                ELSE IF r \in {"T", "s_true"} THEN "T" ELSE "F"
Default(k) == IF k = "S" THEN "" ELSE "F"

Pair(k, v) == <<k, v>>
KwSmall == { <<>>, <<Pair("S", "x")>>, <<Pair("B", "T")>>, <<Pair("S", "")>>, <<Pair("B", "F")>>,
             <<Pair(Bad, "x")>>, <<Pair("S", "x"), Pair(Bad, "x")>>, <<Pair("B", "T"), Pair(Bad, "x")>> }
KwFull == KwSmall \cup { <<Pair("S", "n7")>>, <<Pair("B", "s_true")>>, <<Pair("B", "s_0")>>,
                         <<Pair(Bad, "x"), Pair("S", "x")>>, <<Pair(Bad, "x"), Pair("B", "T")>>,
                         <<Pair("S", "x"), Pair("B", "T")>>, <<Pair("S", ""), Pair("B", "F")>> }
KwNum == { <<Pair("S", "n1")>>, <<Pair("S", "f1")>>, <<Pair("S", "bT")>>, <<Pair("B", "T")>> }
Kwargs == IF KwLevel = 1 THEN KwSmall ELSE IF KwLevel = 3 THEN KwNum ELSE KwFull
HasBad(kw) == \E i \in DOMAIN kw : kw[i][1] = Bad
KwMap(kw) == {<<kw[i][1], Coerce(kw[i][1], kw[i][2])>> : i \in {j \in DOMAIN kw : kw[j][1] # Bad}}

VARIABLES tcfg,     \* set of <<ident, key, value>>           (_thread_config contents)
          present,  \* idents that have a dict               (_thread_config keys)
          inctx,    \* idents inside a scope                 (_thread_in_context_manager)
          ident,    \* thread -> ident or None
          ctl,      \* thread -> control record of the operation in flight
          depth,    \* thread -> number of scopes entered    (python frames)
          ghost,    \* thread -> stack of override maps of the successfully opened scopes (property view)
          env,      \* the process environment (chosen once)
          nops, hist
vars == <<tcfg, present, inctx, ident, ctl, depth, ghost, env, nops, hist>>

\* res = what the operation returned / raised; exp = what the property says it must (None: nothing to say)
Ctl(ph, op, kw, k, i, onerr, after, res, exp) ==
   [ph |-> ph, op |-> op, kw |-> kw, k |-> k, i |-> i, onerr |-> onerr, after |-> after, res |-> res, exp |-> exp]
Dead == Ctl("dead", None, <<>>, None, 0, None, None, None, None)
Idle(res, exp) == Ctl("idle", None, <<>>, None, 0, None, None, res, exp)
Live(t) == ctl[t].ph # "dead"

\* ------------------------------------------------------------------ shared memory
Get(C, id, k) == IF \E e \in C : e[1] = id /\ e[2] = k THEN (CHOOSE e \in C : e[1] = id /\ e[2] = k)[3] ELSE Unset
Put(C, id, k, v) == {e \in C : ~(e[1] = id /\ e[2] = k)} \cup {<<id, k, v>>}
EnvVal(k) == IF env[k] # Unset THEN Coerce(k, env[k]) ELSE Default(k)
\* what __getattr__ returns: the thread's stored value when it `is not None`, else environment, else default
LookupIn(C, id, k) == LET v == Get(C, id, k) IN
   IF v # Unset /\ ~("D_TRUTHY_LOOKUP" \in Known /\ v \in {"", "F"}) THEN v ELSE EnvVal(k)
Lookup(t, k) == LookupIn(tcfg, ident[t], k)

\* ------------------------------------------------------------------ the property's view
RECURSIVE TopDown(_, _, _)
TopDown(stack, n, k) == IF n = 0 THEN Unset
                        ELSE IF \E e \in stack[n] : e[1] = k THEN (CHOOSE e \in stack[n] : e[1] = k)[2]
                        ELSE TopDown(stack, n - 1, k)
VisibleIn(stack, k) == LET v == TopDown(stack, Len(stack), k) IN IF v # Unset THEN v ELSE EnvVal(k)
Visible(t, k) == VisibleIn(ghost[t], k)

\* ------------------------------------------------------------------ micro-steps, as functions on
\* m = [tcfg, present, inctx, c (control of the running thread), d (its depth), g (its ghost stack)]
Mem(t) == [tcfg |-> tcfg, present |-> present, inctx |-> inctx, c |-> ctl[t], d |-> depth[t], g |-> ghost[t]]
Exc(m, what) == [m EXCEPT !.c.ph = "exc", !.c.res = what]
Micro(m, id) ==
   LET c == m.c IN
   CASE c.ph = "call_validate" ->
          IF "D_STORE_BEFORE_VALIDATE" \notin Known /\ HasBad(c.kw) THEN Exc(m, "ConfigException")
          ELSE IF "D_NESTED_OVERWRITES" \notin Known /\ id \in m.inctx THEN Exc(m, "ConfigException")
          ELSE [m EXCEPT !.c.ph = "call_ensure"]
     [] c.ph = "call_ensure" -> [m EXCEPT !.present = @ \cup {id}, !.c.ph = "call_store"]
     [] c.ph = "call_store" ->
          IF c.i > Len(c.kw) THEN [m EXCEPT !.c.ph = "enter"]
          ELSE IF c.kw[c.i][1] = Bad THEN Exc(m, "ConfigException")
          ELSE LET k == c.kw[c.i][1]
                   v == IF "D_NO_COERCE" \in Known THEN c.kw[c.i][2] ELSE Coerce(k, c.kw[c.i][2])
                   who == IF "D_SHARED_DICT" \in Known THEN CHOOSE x \in Idents : TRUE ELSE id
               IN [m EXCEPT !.tcfg = Put(@, who, k, v), !.c.i = @ + 1]
     [] c.ph = "enter" ->
          IF id \notin m.inctx
          THEN [m EXCEPT !.inctx = @ \cup {id}, !.d = @ + 1, !.g = Append(@, KwMap(c.kw)), !.c = Idle("ok", c.exp)]
          ELSE Exc(m, "ConfigException")
     [] c.ph = "exc" ->       \* exception delivery: caught in place, or it unwinds the enclosing scope first
          IF c.onerr = "catch" \/ m.d = 0 THEN [m EXCEPT !.c = Idle(c.res, c.exp)]
          ELSE [m EXCEPT !.c.ph = "exit_pop", !.c.after = c.res, !.c.onerr = "catch"]
     [] c.ph = "exit_pop" ->
          IF "D_EXIT_ONLY_ON_SUCCESS" \in Known /\ c.after # "ok" THEN [m EXCEPT !.c.ph = "exit_unmark"]
          ELSE [m EXCEPT !.tcfg = {e \in @ : e[1] # id}, !.present = @ \ {id}, !.c.ph = "exit_unmark"]
     [] c.ph = "exit_unmark" ->
          LET m2 == [m EXCEPT !.inctx = @ \ {id}, !.d = @ - 1, !.g = SubSeq(@, 1, Len(@) - 1)] IN
          IF c.after = "ok" THEN [m2 EXCEPT !.c = Idle("ok", c.exp)]
          ELSE [m2 EXCEPT !.c.ph = "exc", !.c.res = c.after]
     [] OTHER -> m
Quiescent(c) == c.ph \in {"idle", "dead"}
RECURSIVE RunQ(_, _)
RunQ(m, id) == IF Quiescent(m.c) THEN m ELSE RunQ(Micro(m, id), id)

\* ------------------------------------------------------------------ operations
Ops(t) ==  [op : {"open"}, kw : Kwargs, k : {None}, onerr : {"catch", "propagate"}]
      \cup [op : {"read", "assign"}, kw : {<<>>}, k : Keys, onerr : {"catch"}]
      \cup (IF depth[t] > 0 THEN [op : {"raise", "close"}, kw : {<<>>}, k : {None}, onerr : {"catch"}] ELSE {})

\* outcome of an override attempt as the statement words it
OpenOutcome(t, kw) == IF HasBad(kw) \/ Len(ghost[t]) > 0 THEN "ConfigException" ELSE "ok"
\* the control record an operation starts with, and the memory after its first (synchronous) effect
Begin(t, o) ==
   LET m == Mem(t) IN
   CASE o.op = "open"  -> [m EXCEPT !.c = Ctl("call_validate", "open", o.kw, None, 1, o.onerr, None, None, OpenOutcome(t, o.kw))]
     [] o.op = "read"  -> [m EXCEPT !.c = Idle(Lookup(t, o.k), Visible(t, o.k))]
     [] o.op = "assign" -> [m EXCEPT !.c = Idle("ConfigException", "ConfigException")]
     [] o.op = "raise" -> [m EXCEPT !.c = Ctl("exit_pop", "raise", <<>>, None, 0, "catch", "Boom", None, "Boom")]
     [] o.op = "close" -> [m EXCEPT !.c = Ctl("exit_pop", "close", <<>>, None, 0, "catch", "ok", None, "ok")]

ViewsOf(C, I) == {<<t, k, LookupIn(C, I[t], k)>> : t \in {u \in Threads : I[u] # None}, k \in Keys}
Install(t, m) ==
   /\ tcfg' = m.tcfg /\ present' = m.present /\ inctx' = m.inctx
   /\ ctl' = [ctl EXCEPT ![t] = m.c] /\ depth' = [depth EXCEPT ![t] = m.d] /\ ghost' = [ghost EXCEPT ![t] = m.g]

Entry(t, o, m) == [t |-> t, op |-> o.op, kw |-> o.kw, k |-> o.k, onerr |-> o.onerr, id |-> ident[t], res |-> m.c.res,
                   tcfg |-> m.tcfg, inctx |-> m.inctx, present |-> m.present, views |-> ViewsOf(m.tcfg, ident)]

BeginOp(t) == /\ ctl[t].ph = "idle" /\ nops < MaxOps /\ nops' = nops + 1
              /\ \E o \in Ops(t) :
                   LET m0 == Begin(t, o)
                       m == IF Atomic THEN RunQ(m0, ident[t]) ELSE m0 IN
                   /\ Install(t, m)
                   /\ hist' = IF Record THEN Append(hist, Entry(t, o, m)) ELSE hist
              /\ UNCHANGED <<ident, env>>
MicroStep(t) == /\ ~Atomic /\ ~Quiescent(ctl[t])
                /\ Install(t, Micro(Mem(t), ident[t]))
                /\ UNCHANGED <<ident, env, nops, hist>>
ThreadStart(t) == /\ ~Live(t) /\ nops < MaxOps
                  /\ \E id \in Idents : /\ \A u \in Threads : Live(u) => ident[u] # id
                                        /\ ident' = [ident EXCEPT ![t] = id]
                                        /\ hist' = IF Record
                                                   THEN Append(hist, [t |-> t, op |-> "start", kw |-> <<>>, k |-> None, onerr |-> "catch",
                                                                      id |-> id, res |-> "ok", tcfg |-> tcfg, inctx |-> inctx, present |-> present,
                                                                      views |-> ViewsOf(tcfg, [ident EXCEPT ![t] = id])])
                                                   ELSE hist
                  /\ ctl' = [ctl EXCEPT ![t] = Idle(None, None)] /\ nops' = nops + 1
                  /\ UNCHANGED <<tcfg, present, inctx, depth, ghost, env>>
ThreadEnd(t) == /\ ctl[t].ph = "idle" /\ depth[t] = 0
                /\ ctl' = [ctl EXCEPT ![t] = Dead] /\ ident' = [ident EXCEPT ![t] = None]
                /\ hist' = IF Record
                           THEN Append(hist, [t |-> t, op |-> "end", kw |-> <<>>, k |-> None, onerr |-> "catch",
                                              id |-> ident[t], res |-> "ok", tcfg |-> tcfg, inctx |-> inctx, present |-> present,
                                              views |-> ViewsOf(tcfg, [ident EXCEPT ![t] = None])])
                           ELSE hist
                /\ UNCHANGED <<tcfg, present, inctx, depth, ghost, env, nops>>
Step(t) == ThreadStart(t) \/ ThreadEnd(t) \/ BeginOp(t) \/ MicroStep(t)

Init == /\ tcfg = {} /\ present = {} /\ inctx = {}
        /\ ident = [t \in Threads |-> None] /\ ctl = [t \in Threads |-> Dead]
        /\ depth = [t \in Threads |-> 0] /\ ghost = [t \in Threads |-> <<>>]
        /\ env \in EnvChoices /\ nops = 0 /\ hist = <<>>
Next == \E t \in Threads : Step(t)
Spec == Init /\ [][Next]_vars

\* ------------------------------------------------------------------ properties (C15)
\* at every quiescent point a thread's reads are exactly what the property says - covers rejected
\* attempts (they change nothing a later read can observe), scope end by exception, value coercion
QuiescentViewsMatch == \A t \in Threads : ctl[t].ph = "idle" => \A k \in Keys : Lookup(t, k) = Visible(t, k)
\* a step of thread t never changes what another thread that stays alive reads
ThreadLocal == [][\A t \in Threads : Step(t) =>
                    \A u \in Threads \ {t} : (Live(u) /\ ident[u] = ident'[u]) =>
                        \A k \in Keys : Lookup(u, k) = LookupIn(tcfg', ident'[u], k)]_vars
\* nothing of a thread's scopes survives them - also not for the next thread that gets the identifier
NothingLeftAfterScope ==
   \A t \in Threads : (ctl[t].ph = "idle" /\ depth[t] = 0) =>
        (ident[t] \notin inctx /\ \A e \in tcfg : e[1] # ident[t])
FreshThreadSeesEnvironment ==
   \A id \in Idents : (\A t \in Threads : Live(t) => ident[t] # id) => (id \notin inctx /\ \A e \in tcfg : e[1] # id)
\* every finished operation returned / raised what the statement says: a read returns the visible value,
\* an override with an unknown key or inside a scope is rejected, any other is accepted, assignment is refused
OutcomesInContract == \A t \in Threads : (ctl[t].ph = "idle" /\ ctl[t].exp # None) => ctl[t].res = ctl[t].exp
TypeOK == /\ \A e \in tcfg : e[1] \in Idents /\ e[2] \in Keys
          /\ inctx \subseteq Idents /\ present \subseteq Idents

\* ------------------------------------------------------------------ generation of behaviours for replay
Terminal == nops = MaxOps /\ (\A t \in Threads : Quiescent(ctl[t])) /\ Len(hist) > 0 /\ hist[Len(hist)].op # "end"
EmitCase == (Record /\ Terminal) => PrintT(<<"CASE", ToJson([env |-> env, hist |-> hist])>>)
=============================================================================
