#!/bin/sh
# Offline setup: nothing to build - specs are plain TLA+, the harness is stdlib Python run by /venv/bin/python.
# Verifies the toolchain the checks need and parses every specification once.
set -e
cd "$(dirname "$0")"
mkdir -p .work evidence replays
java -version 2>&1 | head -1
/venv/bin/python -c "import sys; sys.path.insert(0,'/repo'); import sqllineage, sqlfluff, sqlparse, networkx; print('sqllineage', sqllineage.VERSION)"
cd spec
for f in *.tla; do
  java -cp /opt/veriftools/tla/tla2tools.jar:/opt/veriftools/tla/CommunityModules-deps.jar tla2sany.SANY "$f" >/dev/null 2>&1 || { echo "SANY failed: $f"; exit 1; }
done
echo setup ok
