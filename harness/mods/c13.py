"""C13 - metadata only refines column attribution.  Spec: Col.tla with metadata knowledge (known, tk) / Trace_Col.tla."""
import copy
import multiprocessing as mp
import os
import random

from .. import core, tlc
from . import c02


def _run_chunk(jobs):
    os.chdir("/tmp")
    import logging
    logging.disable(logging.CRITICAL)
    from .. import col_drv, render_col
    out = []
    for j in jobs:
        p = j["prog"]
        sql = render_col.render(p, **j.get("opts", {}))
        md = render_col.metadata_of(p)
        base = col_drv.flow(sql, "ansi", metadata=None, lca=p.get("lca", False))            # no provider at all
        prov = None
        if j["provider"] == "sqlalchemy" and md:
            # the same knowledge in an in-memory sqlite database (schemas attached as databases)
            from sqllineage.core.metadata.sqlalchemy import SQLAlchemyMetaDataProvider
            prov = SQLAlchemyMetaDataProvider("sqlite:///:memory:")
            try:
                from sqlalchemy import text
                with prov.engine.connect() as conn:
                    schemas = sorted({t.split(".")[0] for t in md})
                    for s in schemas:
                        conn.execute(text("attach database ':memory:' as %s" % s))
                    for t, cols in md.items():
                        conn.execute(text("create table %s (%s)" % (t, ", ".join(c + " int" for c in cols))))
                    conn.commit()
                    o = col_drv.flow(sql, "ansi", provider=_Keep(prov, conn), lca=p.get("lca", False))
            except Exception as e:  # noqa
                o = {"flow": [], "reads": [], "target": [], "exc": "provider_setup:" + type(e).__name__}
        else:
            o = col_drv.flow(sql, "ansi", metadata=md or None, lca=p.get("lca", False))
        o["sql"] = sql
        o["dialect"] = "ansi"
        o["metadata"] = md
        o["provider"] = j["provider"]
        o["reads_nometa"] = base["reads"]
        o["target_nometa"] = base["target"]
        # the same statement without metadata is its own case: the program with the knowledge erased
        b = dict(base, sql=sql, dialect="ansi", metadata=None, provider="none", reads_nometa=base["reads"], target_nometa=base["target"])
        out.append((o, b))
    return out


class _Keep:
    """SQLAlchemy's in-memory sqlite lives as long as its connection: hand the provider over together with it"""

    def __init__(self, prov, conn):
        self.prov, self.conn = prov, conn

    def __getattr__(self, n):
        return getattr(self.prov, n)

    def __bool__(self):
        return bool(self.prov)


def run(chk):
    quick = chk.tier == "quick"
    rnd = random.Random(chk.seed)
    r = chk.tlc("Col", c02.cfg(chk, "mc", WithMeta=True, Schemas={"s"}, TAliases={"x"}, SAliases={"u"}), "O1 with metadata knowledge (every assignment known/unknown)",
                workers=16, timeout=6000)
    if r.violated:
        raise core.MachineryError("Col.tla intended mechanism violates %s" % r.violated)
    chk.require_actions(["Start", "AddTbl", "AddSub", "ToItems", "AddItem", "Finish"])
    g = chk.tlc("Col", c02.cfg(chk, "gen", Emit=True, WithMeta=True, Schemas={"s"}, TAliases={"x"}, SAliases={"u"}, Kinds={"insert", "insert_cols"},
                               MaxItems=2 if not quick else 2, MaxRels=2),
                "generate: every program over schema-qualified tables x every knowledge assignment", workers=1, coverage=False, timeout=6000)
    cases = g.cases("CASE")
    if quick:
        rnd.shuffle(cases)
        cases = [c for c in cases if c["prog"]["known"] or c["prog"]["tk"]][:2600]
    n_exh = len(cases)
    gs = chk.tlc("Col", c02.cfg(chk, "gensim", Emit=True, WithMeta=True, WithUnion=True, WithLiteral=True, MaxRels=3, MaxItems=3, MaxRefs=2,
                                TAliases={"x", "y"}, SAliases={"u", "v"}, invariants=["EmitCase"]),
                 "generate: simulated programs with metadata", workers=1, coverage=False, simulate="num=%d" % (2500 if quick else 60000), depth=12,
                 seed=chk.seed, timeout=6000)
    seen = set()
    for c in gs.cases("CASE"):
        k = str(c["prog"])
        if k not in seen and (c["prog"]["known"] or c["prog"]["tk"]):
            seen.add(k)
            cases.append(c)
    # lateral column alias references (configuration key LATERAL_COLUMN_ALIAS_REFERENCE, on and off): a name spelled like an
    # earlier select alias denotes that item unless a relation in scope is known to have such a column
    r = chk.tlc("Col", c02.cfg(chk, "mclca", WithMeta=True, WithLca=True, Schemas={"s"}, TAliases={"x"}, SAliases={"u"}, Kinds={"insert"}, MaxItems=2),
                "O1 with lateral column alias references", workers=16, timeout=6000)
    if r.violated:
        raise core.MachineryError("Col.tla (lateral references) violates %s" % r.violated)
    r = chk.tlc("Col", c02.cfg(chk, "devlca", WithMeta=True, WithLca=True, Schemas={"s"}, TAliases={"x"}, SAliases={"u"}, Kinds={"insert"}, MaxItems=2,
                               Known={"D_LCA_IGNORES_DATASET"}, invariants=["MachineFlowExact"]), "expected-fail D_LCA_IGNORES_DATASET",
                workers=16, expect_violation=True, coverage=False)
    chk.self_test("spec finds D_LCA_IGNORES_DATASET", bool(r.violated), ",".join(r.violated))
    gl = chk.tlc("Col", c02.cfg(chk, "genlca", Emit=True, WithMeta=True, WithLca=True, WithLiteral=True, MaxRels=2, MaxItems=3, MaxRefs=2, Schemas={"s"},
                                TAliases={"x"}, SAliases={"u"}, Kinds={"insert", "insert_cols", "ctas"}, invariants=["EmitCase"]),
                 "generate: simulated programs with lateral column alias references", workers=1, coverage=False,
                 simulate="num=%d" % (30000 if quick else 400000), depth=12, seed=chk.seed, timeout=6000)
    n_lca = 0
    for c in gl.cases("CASE"):
        k = str(c["prog"])
        if k not in seen and any(x["r"] == 7 for it in c["prog"]["items"] for x in it["refs"]):
            seen.add(k)
            cases.append(c)
            n_lca += 1
            if n_lca >= (900 if quick else 30000):
                break
    chk.cov["programs_with_lateral_references"] = n_lca
    jobs = []
    for i, c in enumerate(cases):
        jobs.append({"prog": c["prog"], "flow": c["flow"], "provider": "sqlalchemy" if i % 3 == 0 else "dict",
                     "opts": {"form1": rnd.choice(["plain", "func", "case", "window"]), "form2": "arith",
                              "paren_source": c["prog"]["tk"] and not c["prog"]["branch2"] and rnd.random() < 0.5}})
    pool = mp.Pool(16)
    try:
        res = pool.map(_run_chunk, c02.chunks(jobs, 96))
    finally:
        pool.terminate()
    flat = [x for part in res for x in part]
    all_jobs, all_obs = [], []
    for j, (o, b) in zip(jobs, flat):
        all_jobs.append(j)
        all_obs.append(o)
        # knowledge erased: same statement, no provider
        pj = copy.deepcopy(j)
        pj["prog"]["known"] = []
        lat = any(x["r"] == 7 for it in pj["prog"]["items"] for x in it["refs"])
        # (a lateral name over a single derived table is valid only while it IS lateral: erasing the knowledge erases the provider)
        if not pj["prog"]["tk"] and not (lat and len(pj["prog"]["rels"]) == 1 and pj["prog"]["rels"][0]["k"] == "sub"):
            all_jobs.append(pj)
            all_obs.append(b)
    verdicts, keep = c02.decide(chk, all_jobs, all_obs, "meta")
    for (j, o), v in zip(keep, verdicts):
        chk.count([j["prog"], o["provider"]], nontrivial=bool(j["prog"]["known"]) or j["prog"]["tk"])
    chk.cov["verdicts"] = {k: verdicts.count(k) for k in sorted(set(verdicts))}
    chk.cov["providers"] = {p: sum(1 for (j, o) in keep if o["provider"] == p) for p in ("dict", "sqlalchemy", "none")}
    k = min(len(keep) - 1, 77)
    chk.sample({"sql": keep[k][1]["sql"], "metadata": keep[k][1]["metadata"], "provider": keep[k][1]["provider"], "observed": keep[k][1]["flow"], "verdict": verdicts[k]})
    ok = [i for i, v in enumerate(verdicts) if v == "ok" and keep[i][1]["metadata"] and len(keep[i][1]["flow"]) >= 1]
    if ok:
        j, o = keep[ok[0]]
        tr = {"prog": j["prog"], "flow": o["flow"], "exc": "none", "reads": o["reads"], "target": o["target"],
              "reads_nometa": o["reads"] + ["<default>.extra"], "target_nometa": o["target"]}
        v = core.validate_traces(chk, "Trace_Col", os.path.join(tlc.SPEC, "Trace_Col.cfg"), [tr], "selftest")
        chk.cov["traces_validated_against_impl"] -= 1
        chk.self_test("table lineage that differs with metadata is rejected", v[1][1] == "metadata_changes_table_lineage", v[1][1])
    elif not chk.violations:
        raise core.MachineryError("no accepted result to run the binding self-test on")
    chk.cov["rule"] = ("cases = (program, knowledge assignment, provider): %d programs over schema-qualified tables printed by TLC from Col.tla with "
                       "every assignment known/unknown of the tables in scope and of the INSERT target (+ %d simulated), each analysed with the "
                       "dict provider or SQLAlchemy on in-memory sqlite holding the same knowledge, and again without any provider (= the "
                       "program with the knowledge erased); table lineage with and without metadata compared in the same trace. "
                       "programs with lateral column alias references (a name spelled like an earlier select alias; key on / off, provider given / "
                       "not given, the name known / not known as a column of a relation in scope) run inside a scope that sets the key. "
                       "non-trivial = some table or the target is known." % (n_exh, len(cases) - n_exh))
    chk.assumptions += ["metadata knowledge: s.a has (c, d), s.b has (c, e), the target has as many columns t1.. as the statement has items",
                        "only schema-qualified tables are given metadata (the statement's quantifier)"]
