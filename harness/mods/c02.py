"""C02 - single-statement column lineage is exact.  Spec: Col.tla / Trace_Col.tla."""
import copy
import multiprocessing as mp
import os
import random

from .. import core, tlc

BASE = dict(Kinds={"insert", "insert_cols", "ctas", "update", "merge"}, Schemas={"none", "s"}, Bare={"a", "b"}, TAliases={"x", "b"}, SAliases={"x", "y"},
            ColNames={"c", "d"}, MaxRels=2, MaxItems=2, MaxRefs=1, Known=set(), Emit=False, WithUnion=False, WithMeta=False, WithLiteral=False,
            WithForeign=False, WithLca=False)


def cfg(chk, name, invariants=("MachineFlowExact", "EmitCase"), **kw):
    c = dict(BASE)
    c.update(kw)
    return tlc.write_cfg(os.path.join(chk.work, name + ".cfg"), constants=c, invariants=list(invariants))


def _run_chunk(args):
    jobs = args
    os.chdir("/tmp")
    from .. import col_drv, render_col, stmt_drv
    import sqllineage.runner  # noqa: import the library before any scoped configuration is entered (import-time defaults)
    out = []
    for j in jobs:
        p = j["prog"]
        try:
            sql = render_col.render(p, **j.get("opts", {}))
        except Exception as e:  # noqa
            out.append({"skip": "render:" + type(e).__name__ + ":" + str(e)})
            continue
        dia = j.get("dialect", "ansi")
        if dia != "ansi" and not stmt_drv.accepts(sql, dia):
            out.append({"skip": "parser rejects"})
            continue
        md = render_col.metadata_of(p) if j.get("metadata", True) else None
        ds = j.get("ds")
        if ds and j.get("mech") == "scoped":
            from sqllineage.config import SQLLineageConfig
            with SQLLineageConfig(DEFAULT_SCHEMA=ds):
                o = col_drv.flow(sql, dia, metadata=md or None)
        elif j.get("mech") in ("scope_without_the_key", "scope_sets_empty"):
            # a scope that does not set the default schema (whatever earlier scopes of this thread did) / that sets it to "" (whatever
            # the environment says): no default is in force inside it
            from sqllineage.config import SQLLineageConfig
            with (SQLLineageConfig(TSQL_NO_SEMICOLON=False) if j["mech"] == "scope_without_the_key" else SQLLineageConfig(DEFAULT_SCHEMA="")):
                o = col_drv.flow(sql, dia, metadata=md or None)
        else:
            o = col_drv.flow(sql, dia, metadata=md or None)
        if ds and not j.get("keep_names"):
            # projection: names under the (fresh) default schema are written back as the placeholder the specification uses
            def back(n):
                if isinstance(n, str) and n.startswith(ds + "."):
                    return "<default>." + n[len(ds) + 1:]
                if isinstance(n, str) and n.startswith("<default>."):
                    return "<placeholder although a default schema is set>." + n[len("<default>."):]
                return n
            for x in o["flow"]:
                x["t"] = back(x["t"])
                x["cands"] = sorted(back(c) for c in x["cands"])
            o["reads"] = [back(t) for t in o["reads"]]
            o["target"] = [back(t) for t in o["target"]]
            o["mech"] = j.get("mech")
        if o.get("exc") == "InvalidSyntaxException" and not stmt_drv.accepts(sql, dia):
            out.append({"skip": "parser rejects"})      # the parser itself rejects the text: outside the quantifier
            continue
        if j.get("opts", {}).get("cte") == "aliased":
            # projection: a candidate that is a CTE read through an alias is reported under the CTE's own (generated) name; the
            # specification knows the relation by the name it is exposed under
            own = {"zc%d" % (i + 1): r["al"] for i, r in enumerate(p["rels"])}
            if p["branch2"]:
                own["zc9"] = p["branch2"][0].get("al", "none")
            for x in o["flow"]:
                x["cands"] = sorted(own.get(c, c) for c in x["cands"])
        sp = j.get("opts", {}).get("spell")
        if sp:
            # projection: a statement-local name is reported as written (less its quotes); the specification knows it by
            # its abstract name
            inv = {v.strip('"`'): k for k, v in sp.items()}
            for x in o["flow"]:
                x["t"] = inv.get(x["t"], x["t"])
                x["cands"] = sorted(inv.get(c, c) for c in x["cands"])
        o["sql"] = sql
        o["dialect"] = dia
        o["metadata"] = md
        out.append(o)
    return out


def chunks(xs, n):
    k = max(1, (len(xs) + n - 1) // n)
    return [xs[i:i + k] for i in range(0, len(xs), k)]


def run_jobs(jobs):
    pool = mp.Pool(16)
    try:
        res = pool.map(_run_chunk, chunks(jobs, 96))
    finally:
        pool.terminate()
    return [x for part in res for x in part]


def prog_features(p):
    f = set()
    rels = p["rels"]
    if any(r["k"] == "sub" for r in rels):
        f.add("derived_table")
    if len(rels) > 1:
        f.add("multi_relation")
    for it in p["items"]:
        for r in it["refs"]:
            if r["c"] == "*":
                f.add("wildcard")
                if r["r"] == 0:
                    f.add("unqualified_wildcard")
            elif r["r"] == 0 and len(rels) > 1:
                f.add("unqualified_in_multi_relation_scope")
        if not it["refs"]:
            f.add("literal_item")
    if p["branch2"]:
        f.add("union")
    if p["collist"]:
        f.add("column_list")
    if p["known"]:
        f.add("metadata")
    if any(r["k"] == "sub" for r in rels) and any(r["k"] == "tbl" for r in rels) and "unqualified_wildcard" in f:
        f.add("unqualified_wildcard_over_table_and_derived_table")
    other_scope_bare = {r["n"] for r in rels if r["k"] == "sub"} | ({p["branch2"][0]["n"]} if p["branch2"] else set())
    if p["branch2"] and p["branch2"][0].get("al", "none") != "none" and any(r["al"] == p["branch2"][0]["al"] for r in rels):
        f.add("alias_reused_in_another_branch")
    if any(r["al"] != "none" and r["al"] in other_scope_bare for r in rels):
        f.add("alias_equals_bare_name_of_a_table_read_unaliased_in_another_scope")
    if p["branch2"] and any(r["k"] == "tbl" and r["n"] == p["branch2"][0]["n"] and r["s"] != p["branch2"][0]["s"] for r in rels):
        f.add("later_branch_reads_a_table_whose_bare_name_an_earlier_branch_table_of_another_schema_has")
    return sorted(f) or ["none"]


def opt_features(o):
    f = set()
    if o.get("cte") == "aliased":
        f.add("written:derived_tables_as_ctes_read_through_an_alias")
    elif o.get("cte"):
        f.add("written:derived_tables_as_ctes_read_without_alias")
    if o.get("tablesample"):
        f.add("written:tablesample_after_the_alias")
    if o.get("spell"):
        f.add("written:quoted_aliases")
    if o.get("inner_join") is not None:
        f.add("written:derived_table_joins_a_table_under_a_name_of_the_outer_scope")
    if o.get("where_sub"):
        f.add("written:where_subquery_reads_a_table_under_a_name_of_the_outer_scope")
    if o.get("target_in_where"):
        f.add("written:target_also_read_in_a_where_subquery")
    if o.get("paren_source"):
        f.add("written:parenthesised_source_query")
    return f


def decide(chk, jobs, obs, label):
    traces, keep = [], []
    for j, o in zip(jobs, obs):
        if "skip" in o:
            continue
        traces.append({"prog": j["prog"], "flow": o["flow"], "exc": o["exc"], "reads": o.get("reads", []), "target": o.get("target", []),
                       "reads_nometa": o.get("reads_nometa", o.get("reads", [])), "target_nometa": o.get("target_nometa", o.get("target", []))})
        keep.append((j, o))
    tcfg = os.path.join(tlc.SPEC, "Trace_Col.cfg")
    verdicts = {}
    B = 4000
    for off in range(0, len(traces), B):
        v = core.validate_traces(chk, "Trace_Col", tcfg, traces[off:off + B], "%s%d" % (label, off), workers=1)
        for k, val in v.items():
            verdicts[off + k - 1] = val
    out = []
    for i, (j, o) in enumerate(keep):
        verdict = verdicts[i][1]
        if verdict == "ok":
            out.append("ok")
            continue
        chk.reject({"module": "Col", "clause": verdict.split(":")[0], "dialect": o["dialect"], "exception": o["exc"], "kind": j["prog"]["kind"],
                    "features": sorted(set(prog_features(j["prog"])) | opt_features(j.get("opts", {}))),
                    "form": j.get("opts", {}).get("form1", "plain")},
                   {"sql": o["sql"], "dialect": o["dialect"], "metadata": o["metadata"], "program": j["prog"], "ideal_flow": j.get("flow"),
                    "observed_flow": o["flow"], "verdict": verdict,
                    "how": "harness.render_col.render(program) -> LineageRunner(sql).get_column_lineage(): (first, last) of every path"})
        out.append(verdict)
    return out, keep


def generate(chk, quick, seed, nsim=None, **kw):
    cases = []
    r = chk.tlc("Col", cfg(chk, "gen_a", Emit=True, Schemas={"none"}, TAliases={"x"}, SAliases={"u"}, Kinds={"insert"}),
                "generate: every program (2 relations incl. derived tables, 2 single-reference items)", workers=1, coverage=False, timeout=6000)
    cases += r.cases("CASE")
    if quick:
        random.Random(seed).shuffle(cases)
        cases = cases[:6000]
    if not quick:
        r = chk.tlc("Col", cfg(chk, "gen_b", Emit=True, TAliases={"x"}, SAliases={"u"}, MaxItems=1),
                    "generate: every program (schemas, all statement kinds, 1 item)", workers=1, coverage=False, timeout=6000)
        cases += r.cases("CASE")
        r = chk.tlc("Col", cfg(chk, "gen_c", Emit=True, Schemas={"none"}, TAliases={"x"}, SAliases={"u"}, Kinds={"insert"}, WithUnion=True, WithLiteral=True),
                    "generate: every program (UNION ALL, literal items)", workers=1, coverage=False, timeout=6000)
        cases += [c for c in r.cases("CASE") if c["prog"]["branch2"] or any(not it["refs"] for it in c["prog"]["items"])]
    n_exh = len(cases)
    r = chk.tlc("Col", cfg(chk, "gen_sim", Emit=True, MaxRels=3, MaxItems=3, MaxRefs=2, TAliases={"x", "y"}, SAliases={"u", "v"},
                           invariants=["EmitCase"], WithUnion=True, WithLiteral=True, **kw),
                "generate: simulated programs (3 relations, 3 items, 2 references per item, UNION ALL, literals)", workers=1, coverage=False,
                simulate="num=%d" % (nsim or (4000 if quick else 150000)), depth=12, seed=seed, timeout=6000)
    seen = set()
    for c in r.cases("CASE"):
        k = str(c["prog"])
        if k not in seen:
            seen.add(k)
            cases.append(c)
    return cases, n_exh


def run(chk):
    quick = chk.tier == "quick"
    rnd = random.Random(chk.seed)
    r = chk.tlc("Col", cfg(chk, "mc"), "O1 resolution by name = resolution by index (intended alias precedence)", workers=16, timeout=6000)
    if r.violated:
        raise core.MachineryError("Col.tla intended mechanism violates %s" % r.violated)
    chk.require_actions(["Start", "AddTbl", "AddSub", "ToItems", "AddItem", "Finish"])
    r = chk.tlc("Col", cfg(chk, "dev", Known={"D_ALIAS_MAP_PRECEDENCE"}, invariants=["MachineFlowExact"]), "expected-fail D_ALIAS_MAP_PRECEDENCE",
                workers=16, expect_violation=True, coverage=False)
    chk.self_test("spec finds D_ALIAS_MAP_PRECEDENCE", bool(r.violated), ",".join(r.violated))
    cases, n_exh = generate(chk, quick, chk.seed)
    from .. import render_col
    jobs = []
    for c in cases:
        # a fixed form, or (half of the time) a random expression tree of depth <= 3 over the item's references
        f1 = rnd.choice(render_col.FORMS1) if rnd.random() < 0.5 else "tree:%d" % rnd.randrange(1 << 30)
        f2 = rnd.choice(render_col.FORMS2) if rnd.random() < 0.5 else "tree:%d" % rnd.randrange(1 << 30)
        jobs.append({"prog": c["prog"], "flow": c["flow"], "opts": {"form1": f1, "form2": f2, "as_kw": rnd.random() < 0.5,
                                                                    "join": rnd.choice(["join", "left join", "cross join", "comma", "join"])},
                     "metadata": False})
    if not quick:
        more = []
        for c in cases[:n_exh:5]:
            for f1 in render_col.FORMS1:
                more.append({"prog": c["prog"], "flow": c["flow"], "opts": {"form1": f1, "form2": rnd.choice(render_col.FORMS2)}, "metadata": False})
        jobs += more
    # the incremental-load idiom (the target is read in a WHERE subquery as well) for a twentieth of the INSERTs
    for j in jobs:
        if j["prog"]["kind"] in ("insert", "insert_cols") and not j["prog"]["branch2"] and rnd.random() < 0.05:
            j["opts"]["target_in_where"] = True
    jobs = [j for j in jobs if not (j["opts"].get("join") == "cross join")] + [dict(j, opts=dict(j["opts"], join="join")) for j in jobs if j["opts"].get("join") == "cross join"]
    obs = run_jobs(jobs)
    verdicts, keep = decide(chk, jobs, obs, "col")
    for (j, o), v in zip(keep, verdicts):
        chk.count([j["prog"], j["opts"]], nontrivial=len(j["prog"]["rels"]) > 1 or any(r["k"] == "sub" for r in j["prog"]["rels"]))
    chk.cov["verdicts"] = {k: verdicts.count(k) for k in sorted(set(verdicts))}
    k = min(len(keep) - 1, 1234)
    chk.sample({"sql": keep[k][1]["sql"], "ideal_flow": keep[k][0]["flow"], "observed": keep[k][1]["flow"], "verdict": verdicts[k]})
    ok = [i for i, v in enumerate(verdicts) if v == "ok" and len(keep[i][1]["flow"]) >= 2]
    if ok:
        j, o = keep[ok[0]]
        o1 = copy.deepcopy(o)
        o1["flow"] = o1["flow"][1:]
        o2 = copy.deepcopy(o)
        o2["flow"][0]["t"] = "<default>.elsewhere"
        v = core.validate_traces(chk, "Trace_Col", os.path.join(tlc.SPEC, "Trace_Col.cfg"),
                                 [{"prog": j["prog"], "flow": x["flow"], "exc": "none", "reads": [], "target": [], "reads_nometa": [], "target_nometa": []} for x in (o1, o2)], "selftest")
        chk.cov["traces_validated_against_impl"] -= 2
        chk.self_test("a dropped pair / a re-attributed source is rejected", v[1][1] != "ok" and v[2][1] != "ok", "%s %s" % (v[1][1], v[2][1]))
    elif not chk.violations:
        raise core.MachineryError("no accepted result to run the binding self-test on")
    chk.cov["rule"] = ("cases = (program, expression form, join style): %d programs printed by TLC from Col.tla's exhaustive configurations (a seeded 6000 of the 13.7k in quick; 2 relations incl. derived "
                       "tables, 2 items, adversarial aliases, column list, UNION ALL, literals) + %d simulated (3 relations, 3 items, two-reference "
                       "expressions); each item rendered under one of 9 / 6 fixed expression forms or a random expression tree of depth <= 3 (functions, CAST, CASE, arithmetic, concatenation, comparison, parentheses, window functions); "
                       "the reported (source, target) pairs decided by Trace_Col against Flow. non-trivial = more than one relation or a derived table."
                       % (n_exh, len(cases) - n_exh))
    chk.assumptions += ["an expression is the set of column references it contains: forms are enumerated by the renderer, not by TLC",
                        "un-aliased multi-reference expressions are not generated (their display name follows the text)"]
