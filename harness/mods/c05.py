"""C05 - a script is analysed as exactly the sequence of its statements.  Spec: Split.tla (+ Script.tla ideal fold)."""
from harness import REPO as _REPO
import multiprocessing as mp
import os
import random
import re

from .. import core, tlc

BODY = {
    "ansi": {"B1": "insert into t1 select * from s1",
             "B2": "insert into t2 select ';' as x, c from t1",
             "B3": 'create table t3 as select "a;b", c from t2',
             "B4": "insert into t4 select * from t2",
             # text that is no statement at all is a chunk of the script all the same (it is the parser's to reject, C10)
             "G1": ", insert into t9 select 1",
             "G2": ") select 2 from t9",
             "G3": ":: x . y"},
    # top-level SELECTs (plain, SELECT INTO) and a RENAME between them
    "postgres": {"B1": "select a from s7",
                 "B2": "select ';' as x, b into y7 from s8",
                 "B3": "alter table s7 rename to s9",
                 "B4": "select * from s6"},
    "tsql": {"B1": "insert into t1 select * from s1",
             "B2": "insert into t2 select ';' as x, c from t1",
             "B3": "select c into t3 from t2",
             "B4": "insert into t4 select * from t2"},
}
LEX = {"SEMI": ";", "LC": "-- note; more\n", "BC": "/* x; y */", "NL": "\n", "SP": " "}


def cfg(chk, name, maxlex, bodies=("B1", "B2", "B3", "B4"), maxbodies=3, known=(), emit=False, newline=False):
    return tlc.write_cfg(os.path.join(chk.work, name + ".cfg"),
                         constants=dict(Bodies=set(bodies), MaxLex=maxlex, MaxBodies=maxbodies, Known=set(known), Emit=emit,
                                        NewlineMode=newline), invariants=["SplitExact", "EmitCase"])


def text_of(script, dialect):
    parts = []
    for x in script:
        parts.append(BODY[dialect][x] if x in BODY[dialect] else LEX[x])
    return " ".join(parts)


def norm(s):
    s = re.sub(r"\s+", " ", s).strip()
    while s.endswith(";"):
        s = s[:-1].rstrip()
    return s


def _helpers_chunk(args):
    cases, dialect = args
    import sys
    if _REPO not in sys.path:
        sys.path.insert(0, _REPO)
    from sqllineage.utils.helpers import split, trim_comment
    out = []
    for c in cases:
        text = text_of(c["script"], dialect)
        got = [norm(trim_comment(s)) for s in split(text.strip())]
        out.append(got)
    return out


def _runner_chunk(args):
    """full LineageRunner on the script: statements(), table summary, column pairs; plus the statements analysed alone"""
    cases, dialect, mode = args
    import sys
    import warnings
    if _REPO not in sys.path:
        sys.path.insert(0, _REPO)
    os.chdir("/tmp")
    warnings.simplefilter("ignore")
    from sqllineage.config import SQLLineageConfig
    from sqllineage.core.holders import SQLLineageHolder
    from sqllineage.core.metadata.dummy import DummyMetaDataProvider
    from sqllineage.core.parser.sqlfluff.analyzer import SqlFluffLineageAnalyzer
    from sqllineage.runner import LineageRunner
    from .. import script_drv as d
    an = SqlFluffLineageAnalyzer(".", dialect)
    prov = DummyMetaDataProvider()
    solo = {}
    out = []

    def pairs(paths):
        return sorted({(str(p[0]), str(p[-1])) for p in paths})
    if mode == "env":
        os.environ["SQLLINEAGE_TSQL_NO_SEMICOLON"] = "true"
    for c in cases:
        text = text_of(c["script"], dialect)
        rec = {"text": text, "dialect": dialect}
        try:
            def go():
                lr = LineageRunner(text, dialect=dialect)
                rec["statements"] = [norm(s) for s in lr.statements()]
                rec["final"] = {"e": sorted([d.short(u), d.short(v)] for u, v in lr._sql_holder.table_lineage_graph.edges),
                                "s": sorted(d.short(t) for t in lr.source_tables), "t": sorted(d.short(t) for t in lr.target_tables),
                                "i": sorted(d.short(t) for t in lr.intermediate_tables), "x": "none"}
                rec["pairs"] = pairs(lr.get_column_lineage())
            if mode == "scoped":
                with SQLLineageConfig(TSQL_NO_SEMICOLON=True):
                    go()
            else:
                go()
        except Exception as e:  # noqa
            rec["statements"] = []
            rec["final"] = {"e": [], "s": [], "t": [], "i": [], "x": type(e).__name__}
            rec["pairs"] = []
        # the expected statements, each analysed on its own
        hs, events, obs = [], [], []
        for b in c["expect"]:
            if b not in solo:
                # a fresh analyzer per statement: what the statement means on its own
                solo[b] = SqlFluffLineageAnalyzer(".", dialect).analyze(BODY[dialect][b], prov)
            hs.append(solo[b])
            events += d.facts_of(solo[b])
            h = SQLLineageHolder.of(prov, *hs)
            g = h.table_lineage_graph
            obs.append({"e": sorted([d.short(u), d.short(v)] for u, v in g.edges), "s": sorted(d.short(t) for t in h.source_tables),
                        "t": sorted(d.short(t) for t in h.target_tables), "i": sorted(d.short(t) for t in h.intermediate_tables), "x": "none"})
        rec["solo_pairs"] = pairs(SQLLineageHolder.of(prov, *hs).get_column_lineage()) if hs else []
        if obs:
            obs[-1] = rec["final"]
        rec["h"], rec["obs"] = events, obs
        out.append(rec)
    if mode == "env":
        os.environ.pop("SQLLINEAGE_TSQL_NO_SEMICOLON", None)
    return out


def chunks(xs, n):
    k = max(1, (len(xs) + n - 1) // n)
    return [xs[i:i + k] for i in range(0, len(xs), k)]


def run(chk):
    quick = chk.tier == "quick"
    rnd = random.Random(chk.seed)
    r = chk.tlc("Split", cfg(chk, "mc", 7 if quick else 8), "O1 all lexeme sequences", workers=16, timeout=3000)
    if r.violated:
        raise core.MachineryError("Split.tla intended mechanism violates %s" % r.violated)
    chk.require_actions(["Append1"])
    r = chk.tlc("Split", cfg(chk, "mcnl", 7, newline=True), "O1 newline mode", workers=16)
    if r.violated:
        raise core.MachineryError("Split.tla newline mode violates %s" % r.violated)
    for dev in ["D_SPLIT_IN_COMMENT", "D_KEEP_COMMENT_ONLY", "D_DROP_LAST"]:
        r = chk.tlc("Split", cfg(chk, "dev" + dev, 4, known=[dev]), "expected-fail " + dev, workers=4, expect_violation=True, coverage=False)
        chk.self_test("spec finds " + dev, bool(r.violated), ",".join(r.violated))
    g = chk.tlc("Split", cfg(chk, "gen", 5 if quick else 6, emit=True), "generate: all scripts", workers=1, coverage=False, timeout=3000)
    cases = g.cases("CASE")
    gn = chk.tlc("Split", cfg(chk, "gennl", 5 if quick else 6, emit=True, newline=True), "generate: newline-mode scripts", workers=1,
                 coverage=False, timeout=3000)
    nl_cases = [c for c in gn.cases("CASE") if c["expect"]]
    gg = chk.tlc("Split", cfg(chk, "gengarbage", 5, bodies=("B1", "G1", "G2", "G3"), emit=True), "generate: scripts with chunks that are no statements",
                 workers=1, coverage=False, timeout=3000)
    garbage = [c for c in gg.cases("CASE") if any(x.startswith("G") for x in c["script"])]
    pool = mp.Pool(16)
    try:
        hres = pool.map(_helpers_chunk, [(c, "ansi") for c in chunks(cases + garbage, 64)])
        got = [x for part in hres for x in part]
        # full runner: every script of <= 4 lexemes, a seeded sample of the longer ones
        small = [c for c in cases if len(c["script"]) <= 4 and c["expect"]]
        rest = [c for c in cases if len(c["script"]) > 4 and c["expect"]]
        rnd.shuffle(rest)
        rsel = small[::1 if not quick else 2] + rest[:1500 if quick else 20000]
        rres = pool.map(_runner_chunk, [(c, "ansi", "plain") for c in chunks(rsel, 64)])
        rflat = [x for part in rres for x in part]
        # the same scripts over bodies that are top-level SELECTs (postgres: SELECT INTO), through the runner
        psel = rsel[:400 if quick else 6000]
        pres = pool.map(_runner_chunk, [(c, "postgres", "plain") for c in chunks(psel, 64)])
        pflat = [x for part in pres for x in part]
        rnd.shuffle(nl_cases)
        nsel = nl_cases[:300 if quick else 4000]
        half = len(nsel) // 2
        nres = pool.map(_runner_chunk, [(c, "tsql", "scoped") for c in chunks(nsel[:half], 16)] + [(c, "tsql", "env") for c in chunks(nsel[half:], 16)])
        nflat = [x for part in nres for x in part]
    finally:
        pool.terminate()
    # ---- clause 1: the reported statements are exactly the bodies (comparison modulo comments/whitespace/trailing semicolons)
    for c, g_ in zip(cases + garbage, got):
        exp = [norm(BODY["ansi"][b]) for b in c["expect"]]
        chk.count(["split", c["script"]], nontrivial=any(x in ("LC", "BC") for x in c["script"]) or len(c["expect"]) > 1)
        if g_ != exp:
            chk.reject({"module": "Split", "clause": "statements_exact", "route": "helpers.split+trim_comment"},
                       {"script": c["script"], "text": text_of(c["script"], "ansi"), "expected": exp, "reported": g_})
    for sel, flat, dialect in ((rsel, rflat, "ansi"), (psel, pflat, "postgres"), (nsel, nflat, "tsql")):
        for c, rec in zip(sel, flat):
            exp = [norm(BODY[dialect][b]) for b in c["expect"]]
            chk.count(["runner", dialect, c["script"]], nontrivial=len(c["expect"]) > 1)
            if rec["final"]["x"] != "none":
                chk.reject({"module": "Split", "clause": "script_raises", "exception": rec["final"]["x"], "dialect": dialect},
                           {"text": rec["text"], "dialect": dialect, "exception": rec["final"]["x"]})
                continue
            if rec["statements"] != exp:
                chk.reject({"module": "Split", "clause": "statements_exact", "route": "LineageRunner.statements", "dialect": dialect},
                           {"script": c["script"], "text": rec["text"], "dialect": dialect, "expected": exp, "reported": rec["statements"]})
            if rec["pairs"] != rec["solo_pairs"]:
                chk.reject({"module": "Split", "clause": "column_lineage_is_combination_of_statements", "dialect": dialect},
                           {"text": rec["text"], "dialect": dialect, "script_pairs": rec["pairs"], "combined_solo_pairs": rec["solo_pairs"]})
    # ---- clause 2: table lineage of the script = fold of the statements analysed alone (ideal relation of Script.tla)
    traces = [{"h": x["h"], "obs": x["obs"]} for x in rflat + pflat + nflat if x["h"] and len(x["h"]) == len(x["obs"])]
    src = [x for x in rflat + pflat + nflat if x["h"] and len(x["h"]) == len(x["obs"])]
    tcfg = os.path.join(tlc.SPEC, "Trace_Script.cfg")
    verdicts = {}
    B = 6000
    for off in range(0, len(traces), B):
        v = core.validate_traces(chk, "Trace_Script", tcfg, traces[off:off + B], "fold%d" % off)
        for k, val in v.items():
            verdicts[off + k - 1] = val
    for i, (line, verdict) in sorted(verdicts.items()):
        if verdict != "ok":
            chk.reject({"module": "Script", "clause": "fold_of_solo_statements:" + verdict, "dialect": src[i]["dialect"]},
                       {"text": src[i]["text"], "dialect": src[i]["dialect"], "events": src[i]["h"], "observed": src[i]["obs"], "clause": verdict})
    chk.sample({"script": cases[min(len(cases) - 1, 5000)]["script"], "text": text_of(cases[min(len(cases) - 1, 5000)]["script"], "ansi"),
                "expect": cases[min(len(cases) - 1, 5000)]["expect"]})
    if nflat:
        chk.sample({"tsql_no_semicolon": nflat[0]["text"], "statements": nflat[0]["statements"]})
    # self-test of the binding: a splitter that splits inside comments must be rejected by the comparison
    bad = 0
    for c in cases[:4000]:
        text = text_of(c["script"], "ansi")
        naive = [norm(re.sub(r"--[^\n]*|/\*.*?\*/", "", s)) for s in text.split(";")]
        naive = [s for s in naive if s]
        if naive != [norm(BODY["ansi"][b]) for b in c["expect"]]:
            bad += 1
    chk.self_test("a splitter that splits on every semicolon is rejected", bad > 0, "%d scripts differ" % bad)
    chk.cov["rule"] = ("cases = lexeme sequences enumerated by TLC from Split.tla: all %d scripts of <= %d lexemes over 4 bodies (two with a "
                       "semicolon inside a literal / quoted identifier), separators and comment/blank noise, each split by the real "
                       "helpers; %d of them (all <= 4 lexemes + sample) through LineageRunner with fold-of-solo trace validation and column-pair "
                       "comparison; %d T-SQL newline-only scripts under the scoped override and the environment variable. non-trivial = has a "
                       "comment lexeme or more than one statement." % (len(cases), 5 if quick else 6, len(rsel), len(nsel)))
    chk.cov["exhaustive"] = True
    chk.assumptions += ["lexemes are joined by single blanks", "reported statements are compared after removing comments, collapsing whitespace "
                        "and dropping trailing semicolons (the statement promises the sequence of statements, not their spacing)"]
