"""C18 - the graph export is faithful to the lineage graph.  Spec: Graph.tla (C18Clauses) / Trace_Graph.tla."""
import copy

from .. import core, graphcheck, inputs


def run(chk):
    quick = chk.tier == "quick"
    items = inputs.corpus_items() + inputs.script_items(chk, 1500 if quick else 20000, chk.seed + 1) + inputs.col_items(chk, 500 if quick else 8000, chk.seed + 5)
    traces, meta, verdicts, cfg = graphcheck.run(chk, "C18", items)
    ok = [traces[i] for i, v in verdicts.items() if v[1] == "ok" and traces[i]["xc"]["edges"] and traces[i]["xt"]["edges"]]
    if ok:
        t1 = copy.deepcopy(ok[0]); t1["xt"]["edges"][0]["t"] = "<default>.nowhere"
        t2 = copy.deepcopy(ok[0]); t2["xc"]["cols"].append(dict(t2["xc"]["cols"][0]))
        t3 = copy.deepcopy(ok[0]); t3["sum"]["src"] = list(reversed(t3["sum"]["src"])) + t3["sum"]["src"][:1]
        t4 = copy.deepcopy(ok[0]); t4["xc"]["cols"][0]["parent"] = "<default>.someone_else"
        v = core.validate_traces(chk, "Trace_Graph", cfg, [t1, t2, t3, t4], "selftest")
        chk.cov["traces_validated_against_impl"] -= 4
        chk.self_test("corrupted exports are rejected", all(x[1] != "ok" for x in v.values()), str([x[1] for x in v.values()]))
    elif not chk.violations:
        raise core.MachineryError("no accepted result to run the binding self-test on")
    chk.cov["rule"] = ("cases = results of the real LineageRunner on the harvested corpus and on scripts rendered from TLC-simulated histories "
                       "of Script.tla; both Cytoscape exports and the text summary are projected and compared by TLC with the observed graph "
                       "and role lists; for every fourth result the exports are those the web application serves for the same text (POST /lineage on the WSGI app). "
                       "non-trivial = the result has column nodes.")
    chk.assumptions += ["sorted order of names is supplied by the projection as ranks (TLA+ has no string order)",
                        "the graph is read through LineageRunner._sql_holder; the exports and the summary through the public API"]
