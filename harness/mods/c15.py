"""C15 - configuration overrides are scoped and thread-local.  Spec: Config.tla / Trace_Config.tla."""
import copy
import multiprocessing as mp
import os
import random

from .. import core, tlc
from ..tlc import Raw

ENV_ALL = Raw("EnvAll")
ENV_ONE = Raw("EnvOne")
INVS = ["OutcomesInContract", "QuiescentViewsMatch", "NothingLeftAfterScope", "FreshThreadSeesEnvironment", "TypeOK"]


def cfg(chk, name, **kw):
    c = dict(Threads={"t1", "t2"}, Idents={"i1", "i2"}, MaxOps=4, Known=set(), EnvChoices=ENV_ALL,
             Atomic=False, Record=False, KwLevel=1)
    inv = kw.pop("invariants", INVS)
    props = kw.pop("properties", ["ThreadLocal"])
    cons = kw.pop("constraints", [])
    c.update(kw)
    c["EnvChoices"] = "<- " + str(c["EnvChoices"])
    return tlc.write_cfg(os.path.join(chk.work, name + ".cfg"), constants=c, invariants=inv, properties=props,
                         constraints=cons)


# ----------------------------------------------------------------------------------------------- workers
def _replay_chunk(args):
    cases, keymap, mutant = args
    from .. import config_drv as d
    cfgmod = d.load_config_module()
    if mutant:
        cfgmod = _mutant_module(cfgmod, mutant)
    rp = d.OpReplayer(cfgmod, keymap)
    out = []
    for c in cases:
        ev = rp.run(c)
        out.append(ev)
    return out


class _Shim:
    pass


def _mutant_module(cfgmod, which):
    """a stand-in module whose loader drops one action - used only by the binding self-test"""
    import types
    base = cfgmod._SQLLineageConfigLoader

    class Mutant(base):
        pass
    if which == "exit_keeps_config":
        def __exit__(self, a, b, c):
            tid = self.get_ident()
            if tid in self._thread_in_context_manager:
                self._thread_in_context_manager.remove(tid)
        Mutant.__exit__ = __exit__
    m = types.ModuleType("mutant_config")
    m.__dict__.update({k: v for k, v in cfgmod.__dict__.items() if not k.startswith("__")})
    m.__file__ = cfgmod.__file__
    m._SQLLineageConfigLoader = Mutant
    return m


def _sched_chunk(args):
    jobs, keymap = args
    from .. import config_drv as d
    cfgmod = d.load_config_module()
    out = []
    for env, lifetimes, seed, sticky in jobs:
        rnd = random.Random(seed)
        last = [None]

        def choose(xs, rnd=rnd, last=last, sticky=sticky):
            if last[0] in xs and rnd.random() < sticky:
                return last[0]
            last[0] = rnd.choice(xs)
            return last[0]
        ev, steps = d.LineSched(cfgmod, env, keymap).run(copy.deepcopy(lifetimes), choose)
        out.append((ev, steps))
    return out


def lifetimes_of(case):
    """project a TLC behaviour onto per-thread lifetimes (the operations each thread issues, in its own order)"""
    lts, cur = [], {}
    for h in case["hist"]:
        t = h["t"]
        if h["op"] == "start":
            cur[t] = {"t": t, "id": h["id"], "ops": []}
            lts.append(cur[t])
        elif h["op"] == "end":
            cur.pop(t, None)
        else:
            cur[t]["ops"].append({"op": h["op"], "kw": h["kw"], "k": h["k"], "onerr": h["onerr"]})
    # close every scope that the behaviour left open, then read both keys once more
    for lt in lts:
        d = 0
        for o in lt["ops"]:
            if o["op"] == "open":
                d += 1          # upper bound; surplus closes end the program early, which is harmless
            elif o["op"] in ("close", "raise"):
                d = max(0, d - 1)
        lt["ops"] += [{"op": "close", "kw": [], "k": "none", "onerr": "catch"}] * 0
        lt["ops"] += [{"op": "read", "kw": [], "k": k, "onerr": "catch"} for k in ("S", "B")]
    return [lt for lt in lts if lt["ops"]]


def chunks(xs, n):
    k = max(1, (len(xs) + n - 1) // n)
    return [xs[i:i + k] for i in range(0, len(xs), k)]


def run(chk):
    quick = chk.tier == "quick"
    seed = chk.seed
    pool = mp.Pool(16)
    try:
        _run(chk, quick, seed, pool)
    finally:
        pool.terminate()


def _run(chk, quick, seed, pool):
    # ---------------- O1: the mechanism as specified satisfies the property, every interleaving in the bound
    r = chk.tlc("MC_Config", cfg(chk, "mc_fine", MaxOps=4 if quick else 5), "O1 fine-grained 2 threads", workers=16)
    if r.violated:
        raise core.MachineryError("Config.tla intended mechanism violates %s" % r.violated)
    chk.require_actions(["BeginOp", "MicroStep", "ThreadStart", "ThreadEnd"])
    r = chk.tlc("MC_Config", cfg(chk, "mc_kw2", MaxOps=3 if quick else 4, KwLevel=2, Idents={"i1"} if quick else {"i1", "i2"}),
                "O1 full keyword pool", workers=16)
    if r.violated:
        raise core.MachineryError("Config.tla intended mechanism violates %s" % r.violated)
    if not quick:
        r = chk.tlc("MC_Config", cfg(chk, "mc_3t", Threads={"t1", "t2", "t3"}, Idents={"i1", "i2"}, MaxOps=4, EnvChoices=ENV_ONE),
                    "O1 fine-grained 3 threads", workers=16, timeout=3000)
        if r.violated:
            raise core.MachineryError("Config.tla intended mechanism violates %s" % r.violated)
    # the specification is sensitive: each named deviation is found by TLC (expected to fail)
    for dev in ["D_STORE_BEFORE_VALIDATE", "D_NESTED_OVERWRITES"] + ([] if quick else ["D_EXIT_ONLY_ON_SUCCESS", "D_TRUTHY_LOOKUP", "D_SHARED_DICT"]):
        r = chk.tlc("MC_Config", cfg(chk, "dev_" + dev, Known={dev}, MaxOps=4, EnvChoices=ENV_ALL), "expected-fail " + dev,
                    workers=16, expect_violation=True, coverage=False)
        chk.self_test("spec finds " + dev, bool(r.violated), ",".join(r.violated))

    # ---------------- spec -> code: behaviours generated by TLC, replayed with real threads
    canon = ["Canon"]
    gens = []
    r = chk.tlc("MC_Config", cfg(chk, "gen_exh", Atomic=True, Record=True, MaxOps=3 if quick else 4, KwLevel=1 if quick else 1,
                                 EnvChoices=ENV_ONE, invariants=["OutcomesInContract", "QuiescentViewsMatch", "EmitCase"],
                                 properties=[], constraints=canon),
                "generate: all behaviours", workers=1, coverage=False, timeout=3000)
    gens += r.cases("CASE")
    # values that compare equal across types given to the str-typed key in successive scopes (1, 1.0, True): one thread
    r = chk.tlc("MC_Config", cfg(chk, "gen_num", Atomic=True, Record=True, MaxOps=4, KwLevel=3, Threads={"t1"}, Idents={"i1"},
                                 EnvChoices=ENV_ONE, invariants=["OutcomesInContract", "QuiescentViewsMatch", "EmitCase"], properties=[]),
                "generate: successive scopes with equal-comparing values of different types", workers=1, coverage=False, timeout=3000)
    gens += [c for c in r.cases("CASE") if sum(1 for h in c["hist"] if h["op"] == "open") >= 2 and any(h["op"] == "read" and h["k"] == "S" for h in c["hist"])]
    n_exh = len(gens)
    nsim = 120 if quick else 2500
    r = chk.tlc("MC_Config", cfg(chk, "gen_sim", Atomic=True, Record=True, MaxOps=7, KwLevel=2, Threads={"t1", "t2", "t3"},
                                 Idents={"i1", "i2"}, EnvChoices=ENV_ALL,
                                 invariants=["OutcomesInContract", "QuiescentViewsMatch", "EmitCase"], properties=[]),
                "generate: simulated deeper behaviours", workers=1, coverage=False, simulate="num=%d" % nsim, depth=12,
                seed=seed, timeout=3000)
    sims = r.cases("CASE")
    gens += sims
    if not gens:
        raise core.MachineryError("no behaviours generated")
    from .. import config_drv as d
    keymaps = [d.KEYMAP] if quick else [d.KEYMAP, {"S": "DEFAULT_SCHEMA", "B": "LATERAL_COLUMN_ALIAS_REFERENCE"}]
    all_traces, meta = [], []
    for km in keymaps:
        res = pool.map(_replay_chunk, [(c, km, None) for c in chunks(gens, 64)])
        obs = [e for part in res for e in part]
        for case, ev in zip(gens, obs):
            exp = d.expected_events(case)
            got = d.observed_core(ev)
            same = (exp == got)
            all_traces.append({"env": case["env"], "ev": ev})
            meta.append({"kind": "op", "same": same, "case": case, "keymap": km})
            chk.count(["op", case["hist"] and [[h["t"], h["op"], h["kw"], h["k"], h["onerr"]] for h in case["hist"]], case["env"], km["B"]],
                      nontrivial=any(h["op"] == "open" for h in case["hist"]))
    chk.sample({"kind": "op-level behaviour replayed", "env": gens[0]["env"],
                "ops": [[h["t"], h["op"], h["kw"], h["k"], h["onerr"], "->", h["res"]] for h in gens[min(len(gens) - 1, 777)]["hist"]]})

    # ---------------- code -> spec: line-level schedules of the same programs (inputs the spec did not order)
    rnd = random.Random(seed)
    base = [c for c in sims if sum(1 for h in c["hist"] if h["op"] == "start") >= 2] or sims
    nsched = 1000 if quick else 20000
    jobs = []
    for i in range(nsched):
        c = base[rnd.randrange(len(base))]
        jobs.append((c["env"], lifetimes_of(c), rnd.randrange(1 << 30), rnd.choice([0.0, 0.5, 0.8, 0.95])))
    res = pool.map(_sched_chunk, [(j, d.KEYMAP) for j in chunks(jobs, 64)])
    steps = 0
    flat = [x for part in res for x in part]
    for (env, lts, s, sticky), (ev, st) in zip(jobs, flat):
        steps += st
        all_traces.append({"env": env, "ev": ev})
        meta.append({"kind": "line", "same": True, "case": {"env": env, "lifetimes": lts, "seed": s, "sticky": sticky}})
        chk.count(["line", lts, s], nontrivial=len(lts) >= 2)
    chk.cov["line_level_quanta"] = steps
    chk.sample({"kind": "line-level schedule (first 12 events)", "events": [[e["e"], e["t"], e.get("at"), e["op"], e["res"]] for e in flat[0][0][:12]]})

    # ---------------- every recorded execution is decided by the ideal layer (TLC)
    tcfg_path = os.path.join(tlc.SPEC, "Trace_Config.cfg")
    verdicts = {}
    B = 4000
    for off in range(0, len(all_traces), B):
        v = core.validate_traces(chk, "Trace_Config", tcfg_path, all_traces[off:off + B], "config%d" % off)
        for k, val in v.items():
            verdicts[off + k - 1] = val
    for i, (line, verdict) in sorted(verdicts.items()):
        m = meta[i]
        if verdict == "ok":
            if not m["same"]:
                chk.drift()
            continue
        ev = all_traces[i]["ev"]
        sig = {"module": "Config", "clause": verdict, "granularity": m["kind"],
               "op": ev[line - 1]["op"] if line - 1 < len(ev) else "none"}
        chk.reject(sig, {"trace_kind": m["kind"], "failed_at_event": line, "clause": verdict, "input": m["case"],
                         "event": ev[line - 1] if line - 1 < len(ev) else None,
                         "how": "harness.config_drv OpReplayer/LineSched on sqllineage.config from /repo"})

    # ---------------- the binding is live: a corrupted observation and a loader that drops an action are rejected
    ok_idx = [i for i, v in verdicts.items() if v[1] == "ok" and meta[i]["kind"] == "op"
              and any(e["op"] == "read" and e["res"] not in ("", "F") for e in all_traces[i]["ev"])]
    if ok_idx:
        t = copy.deepcopy(all_traces[ok_idx[0]])
        for e in t["ev"]:
            if e["op"] == "read":
                e["res"] = "corrupted"
                break
        v = core.validate_traces(chk, "Trace_Config", tcfg_path, [t], "selftest_corrupt")
        chk.cov["traces_validated_against_impl"] -= 1
        chk.self_test("corrupted read result is rejected", v[1][1] != "ok", v[1][1])
    probe = [c for c in gens if any(h["op"] == "close" for h in c["hist"]) and any(h["op"] == "open" and h["res"] == "ok" and h["kw"] for h in c["hist"])][:40]
    if probe:
        res = _replay_chunk((probe, d.KEYMAP, "exit_keeps_config"))
        v = core.validate_traces(chk, "Trace_Config", tcfg_path, [{"env": c["env"], "ev": e} for c, e in zip(probe, res)], "selftest_mutant")
        chk.cov["traces_validated_against_impl"] -= len(probe)
        bad = [x for x in v.values() if x[1] != "ok"]
        chk.self_test("loader whose exit keeps the overrides is rejected", len(bad) > 0, "%d of %d traces rejected" % (len(bad), len(probe)))

    chk.cov["rule"] = ("cases = behaviours of Config.tla (Atomic) printed by TLC: all with <= %d operations over the small keyword pool "
                       "(%d) plus %d simulated (seeded) with <= 7 operations, 3 threads, 2 identifiers; each replayed with real threads; "
                       "plus %d line-level schedules of the same per-thread programs under the settrace scheduler. distinct = distinct "
                       "(operation sequence, env, key mapping) or (programs, schedule seed); non-trivial = contains an override attempt "
                       "(op-level) or at least two thread lifetimes (line-level)." % (3 if quick else 4, n_exh, len(sims), nsched))
    chk.cov["exhaustive"] = False
    chk.assumptions += ["thread identifiers are supplied by the harness (get_ident substituted) so that re-use is forced",
                        "one traced line of config.py is the unit of pre-emption (the GIL may switch inside a line; dict operations used are atomic under it)",
                        "TLC 1.8 and the JSON (de)serialisation of CommunityModules are trusted"]
