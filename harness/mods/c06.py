"""C06 - column lineage is well-formed and consistent with table lineage.  Spec: Graph.tla (C06Clauses) / Trace_Graph.tla."""
import copy

from .. import core, graphcheck, inputs


def run(chk):
    quick = chk.tier == "quick"
    items = inputs.corpus_items() + inputs.script_items(chk, 1500 if quick else 20000, chk.seed) + inputs.col_items(chk, 500 if quick else 8000, chk.seed + 4)
    traces, meta, verdicts, cfg = graphcheck.run(chk, "C06", items)
    # binding self-test: corrupt an accepted result (cut a path to one node; re-own a path end) and require rejection
    ok = [traces[i] for i, v in verdicts.items() if v[1] == "ok" and traces[i]["paths"]]
    if ok:
        t1 = copy.deepcopy(ok[0]); t1["paths"][0] = t1["paths"][0][:1]
        t2 = copy.deepcopy(ok[0]); t2["paths"][0][-1]["owner"] = "<default>.not_a_target"
        t3 = copy.deepcopy(ok[0]); t3["cedges"] = t3["cedges"][1:] if len(t3["paths"][0]) == 2 else []
        v = core.validate_traces(chk, "Trace_Graph", cfg, [t1, t2, t3], "selftest")
        chk.cov["traces_validated_against_impl"] -= 3
        chk.self_test("corrupted results are rejected", all(x[1] != "ok" for x in v.values()), str([x[1] for x in v.values()]))
    elif not chk.violations:
        raise core.MachineryError("no accepted result to run the binding self-test on")
    chk.cov["rule"] = ("cases = results of the real LineageRunner on the harvested corpus (%d statements/scripts over 20 dialects, 99 TPC-DS "
                       "queries) and on scripts rendered from TLC-simulated histories of Script.tla; each projected (graph, paths, roles) and "
                       "evaluated clause by clause by TLC. non-trivial = the result has column nodes." % len(inputs.corpus_items()))
    chk.assumptions += ["graphs with more than 60 column nodes get every clause except table-graph reachability",
                        "the graph is read through LineageRunner._sql_holder (no public accessor exists); roles, paths and exports through the public API"]
