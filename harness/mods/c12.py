"""C12 - runs are isolated from one another.  Spec: Pipeline.tla / Trace_Pipeline.tla."""
import copy
import multiprocessing as mp
import os
import random

from .. import core, tlc

INVS = ["SessionEmptyOutsideRuns", "ResultIndependentOfHistory", "ReusedProviderAnswersAsFresh", "OutcomeInContract",
        "SilentSkipEqualsRemoval", "EmitCase"]
ALLK = {"mk1", "mk2", "use", "bad", "unsup"}
DIALK = {"mk1", "use", "bad", "dial"}


def cfg(chk, name, runs=("r1", "r2"), maxstmts=2, kinds=ALLK, maxfault=1, known=(), emit=False, record=False, invariants=INVS, dias=("ansi",)):
    return tlc.write_cfg(os.path.join(chk.work, name + ".cfg"),
                         constants=dict(Runs=set(runs), Provs={"p1", "p2", "dflt"}, MaxStmts=maxstmts, Known=set(known), Emit=emit,
                                        Kinds=set(kinds), MaxFault=maxfault, Record=record, Dias=set(dias)), invariants=list(invariants))


def _replay_chunk(cases):
    os.chdir("/tmp")
    from .. import pipeline_drv as d
    out = []
    for c in cases:
        out.append(d.replay(c))
    return out


def chunks(xs, n):
    k = max(1, (len(xs) + n - 1) // n)
    return [xs[i:i + k] for i in range(0, len(xs), k)]


def generate(chk, quick, seed):
    cases = []
    r = chk.tlc("Pipeline", cfg(chk, "gen_exh", maxstmts=1, maxfault=0, emit=True, record=True, kinds={"mk1", "use", "bad"},
                                invariants=["ResultIndependentOfHistory", "EmitCase"]),
                "generate: all interleavings of 2 one-statement runs", workers=1, coverage=False, timeout=3000)
    cases += r.cases("CASE")
    if quick:
        random.Random(seed).shuffle(cases)
        cases = cases[:3000]
    n_exh = len(cases)
    for runs, num in ((("r1", "r2"), 900 if quick else 12000), (("r1", "r2", "r3"), 600 if quick else 12000)):
        r = chk.tlc("Pipeline", cfg(chk, "gen_sim%d" % len(runs), runs=runs, maxstmts=3, maxfault=2, emit=True, record=True,
                                    invariants=["EmitCase"]),
                    "generate: simulated histories of %d runs" % len(runs), workers=1, coverage=False,
                    simulate="num=%d" % num, depth=6 * len(runs) + 2, seed=seed, timeout=3000)
        cases += r.cases("CASE")
    r = chk.tlc("Pipeline", cfg(chk, "gen_simd", runs=("r1", "r2", "r3"), maxstmts=2, maxfault=0, emit=True, record=True, kinds=DIALK,
                                dias=("ansi", "tsql_ns"), invariants=["EmitCase"]),
                "generate: simulated histories mixing ansi and tsql-without-semicolon runs", workers=1, coverage=False,
                simulate="num=%d" % (500 if quick else 8000), depth=18, seed=seed, timeout=3000)
    cases += r.cases("CASE")
    return cases, n_exh


def run(chk):
    quick = chk.tier == "quick"
    # ---------------- O1
    r = chk.tlc("Pipeline", cfg(chk, "mc2", maxstmts=2 if quick else 3, maxfault=1 if quick else 2), "O1 two runs, every interleaving and fault point",
                workers=16, timeout=5000)
    if r.violated:
        raise core.MachineryError("Pipeline.tla intended mechanism violates %s" % r.violated)
    chk.require_actions(["Begin", "Analyze", "Exit"])
    r = chk.tlc("Pipeline", cfg(chk, "mc3", runs=("r1", "r2", "r3"), maxstmts=1 if quick else 2, kinds={"mk1", "use", "bad"} if quick else {"mk1", "mk2", "use", "bad"},
                                maxfault=1), "O1 three runs", workers=16, timeout=5000)
    if r.violated:
        raise core.MachineryError("Pipeline.tla intended mechanism violates %s" % r.violated)
    r = chk.tlc("Pipeline", cfg(chk, "mcd", maxstmts=2, kinds=DIALK, maxfault=0, dias=("ansi", "tsql_ns")), "O1 two runs, two dialect modes",
                workers=16, timeout=5000)
    if r.violated:
        raise core.MachineryError("Pipeline.tla intended mechanism violates %s" % r.violated)
    for dev in ["D_NO_DEREGISTER_ON_ERROR", "D_SESSION_AFTER_BASE", "D_SILENT_ABORTS", "D_SHARED_PARSE_CACHE"] + ([] if quick else ["D_TRUTHY_DEFAULT"]):
        r = chk.tlc("Pipeline", cfg(chk, "dev_" + dev, maxstmts=2, known=[dev], kinds=DIALK if dev == "D_SHARED_PARSE_CACHE" else ALLK,
                                    dias=("ansi", "tsql_ns") if dev == "D_SHARED_PARSE_CACHE" else ("ansi",)), "expected-fail " + dev, workers=16,
                    expect_violation=True, coverage=False)
        chk.self_test("spec finds " + dev, bool(r.violated), ",".join(r.violated))
    # ---------------- spec -> code
    cases, n_exh = generate(chk, quick, chk.seed)
    if not cases:
        raise core.MachineryError("no behaviours generated")
    pool = mp.Pool(16)
    try:
        res = pool.map(_replay_chunk, chunks(cases, 64))
    finally:
        pool.terminate()
    evs = [x for part in res for x in part]
    traces = []
    same = []
    for c, ev in zip(cases, evs):
        traces.append({"ev": [{k: v for k, v in e.items() if k != "taps"} for e in ev]})
        # O2: the machine's prediction (answers after every step, outcome and expansions at exit)
        eq = True
        for m, o in zip(c["log"], ev):
            if m["e"] in ("step", "exit") and {p: list(a) for p, a in m["answers"].items()} != o["answers"]:
                eq = False
            if m["e"] == "exit" and (m["outcome"] != o["outcome"] or [list(x) for x in m["seen"]] != o["seen"] or m["warnings"] != o["warnings"]):
                eq = False
        same.append(eq)
        sig = [[e["r"], e["e"], e.get("p"), e.get("script"), e.get("silent"), e.get("fault"), e.get("dia")] for e in c["log"]]
        chk.count(sig, nontrivial=sum(1 for e in c["log"] if e["e"] == "begin") >= 2)
    chk.sample({"history": [[e["r"], e["e"]] + ([e["p"], list(e["script"]), e["silent"], e["fault"]] if e["e"] == "begin" else
                                               [e["outcome"], e["seen"]] if e["e"] == "exit" else [e["k"]]) for e in evs[len(evs) // 2]]})
    tcfg = os.path.join(tlc.SPEC, "Trace_Pipeline.cfg")
    verdicts = {}
    B = 4000
    for off in range(0, len(traces), B):
        v = core.validate_traces(chk, "Trace_Pipeline", tcfg, traces[off:off + B], "pipe%d" % off)
        for k, val in v.items():
            verdicts[off + k - 1] = val
    for i, (line, verdict) in sorted(verdicts.items()):
        if verdict == "ok":
            if not same[i]:
                chk.drift()
            continue
        e = evs[i][line - 1]
        chk.reject({"module": "Pipeline", "clause": verdict},
                   {"clause": verdict, "failed_at_event": line, "events": evs[i],
                    "how": "harness.pipeline_drv.replay: real threads released one statement at a time; scripts in pipeline_drv.SQL"})
    # ---------------- binding self-tests
    ok = [i for i, v in verdicts.items() if v[1] == "ok" and any(e["e"] == "exit" and e["seen"] for e in evs[i])]
    if ok:
        t = copy.deepcopy(traces[ok[0]])
        for e in t["ev"]:
            if e["e"] == "exit" and e["seen"]:
                e["seen"] = [["leaked"]] + e["seen"][1:]
                break
        t2 = copy.deepcopy(traces[ok[0]])
        t2["ev"][-1]["answers"]["p1"] = ["a1", "a2"]
        v = core.validate_traces(chk, "Trace_Pipeline", tcfg, [t, t2], "selftest")
        chk.cov["traces_validated_against_impl"] -= 2
        chk.self_test("leaked expansion / left-over session answer is rejected", v[1][1] != "ok" and v[2][1] != "ok", "%s %s" % (v[1][1], v[2][1]))
    chk.cov["rule"] = ("cases = histories of 2-3 runs printed by TLC from Pipeline.tla: %d interleavings of two one-statement runs (all of them in thorough, a seeded 3000 in quick) plus "
                       "%d simulated histories (scripts <= 3 statements over create/use/unparsable/unsupported, own providers re-used "
                       "sequentially, the shared default provider, silent mode, a provider fault on the j-th lookup); each replayed with real "
                       "threads pre-empted before every analyse call and before deregistration. non-trivial = at least two runs."
                       % (n_exh, len(cases) - n_exh))
    chk.assumptions += ["pre-emption points: before each statement's analysis and before session deregistration (class-level wrappers in the harness process)",
                        "the provider fault is an exception raised by the harness inside get_table_columns"]
