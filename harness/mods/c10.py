"""C10 - total error contract; silent mode skips unsupported statements.
Spec: Pipeline.tla (OutcomeInContract, SilentSkipEqualsRemoval; single-run behaviours replayed) + Contract.tla (trace validation of
arbitrary strings: TLC does not generate the text, it decides every recorded execution)."""
from harness import REPO as _REPO
import multiprocessing as mp
import os
import random

from .. import core, tlc
from . import c12


def _mut_chunk(jobs):
    import sys
    import warnings
    os.chdir("/tmp")
    warnings.simplefilter("ignore")
    if _REPO not in sys.path:
        sys.path.insert(0, _REPO)
    import logging
    logging.disable(logging.CRITICAL)
    from sqllineage.utils.helpers import split
    from .. import drive, stmt_drv
    out = []
    for j in jobs:
        text, dia = j["text"], j["dialect"]
        try:
            stmts = split(text.strip())
        except Exception as e:  # noqa
            stmts = None
        parse = []
        ansi_ok = True
        if stmts is not None:
            for s in stmts[:6]:
                if dia == "non-validating":
                    parse.append(True)          # its parser (sqlparse) rejects nothing: there is no "unparsable" for it
                    continue
                try:
                    parse.append(bool(stmt_drv.accepts(s, dia)))
                except BaseException as e:  # noqa: the parser itself failed on this text: not the library's contract
                    parse = None
                    break
        else:
            parse = None
        d = drive.dump(text, dia, silent=j.get("silent", False), want_graph=False)
        ansi_rejects = False
        if dia == "non-validating" and d["exc"] != "none" and stmts:
            try:
                ansi_rejects = not all(stmt_drv.accepts(s, "ansi") for s in stmts[:6])
            except BaseException:  # noqa
                ansi_rejects = True
        out.append({"parse": parse, "ansi_rejects": ansi_rejects, "outcome": d["exc"] if d["exc"] != "none" else "ok",
                    "library": "SQLLineageException" in d.get("exc_mro", []) if d["exc"] != "none" else True,
                    "msg": d.get("msg", "")[:160], "n_statements": len(stmts) if stmts is not None else -1})
    return out


# (dialect, a statement of an unsupported type, a supported statement that starts with the same words)
SILENT_PAIRS = [("snowflake", "create or replace sequence sq1", "create or replace table t as select a from s"),
                ("snowflake", "copy into @stage from t0", "copy into t from @stage"),
                ("snowflake", "create or replace procedure p() returns int language sql as 'select 1'", "create or replace view v as select a from s"),
                ("postgres", "create temporary sequence sq1", "create temporary table t as select a from s"),
                ("ansi", "create sequence sq1", "create table t as select a from s"),
                ("mysql", "drop index i1 on t0", "drop table t0")]


def chunks(xs, n):
    k = max(1, (len(xs) + n - 1) // n)
    return [xs[i:i + k] for i in range(0, len(xs), k)]


def run(chk):
    quick = chk.tier == "quick"
    rnd = random.Random(chk.seed)
    # ---------------- silent mode / failure classes: Pipeline.tla, one run, every script
    r = chk.tlc("Pipeline", c12.cfg(chk, "mc1", runs=("r1",), maxstmts=4 if quick else 5, maxfault=2), "O1 one run, every script of <= 4 statements, silent on/off",
                workers=16, timeout=5000)
    if r.violated:
        raise core.MachineryError("Pipeline.tla intended mechanism violates %s" % r.violated)
    chk.require_actions(["Begin", "Analyze", "Exit"])
    r = chk.tlc("Pipeline", c12.cfg(chk, "dev", runs=("r1",), maxstmts=3, known=["D_SILENT_ABORTS"]), "expected-fail D_SILENT_ABORTS", workers=8,
                expect_violation=True, coverage=False)
    chk.self_test("spec finds D_SILENT_ABORTS", bool(r.violated), ",".join(r.violated))
    g = chk.tlc("Pipeline", c12.cfg(chk, "gen1", runs=("r1",), maxstmts=3 if quick else 4, maxfault=0, emit=True, record=True,
                                    invariants=["SilentSkipEqualsRemoval", "OutcomeInContract", "EmitCase"]),
                "generate: every single-run behaviour (unsupported statement at every position, silent on/off)", workers=1, coverage=False, timeout=5000)
    cases = [c for c in g.cases("CASE")]
    pool = mp.Pool(16)
    try:
        res = pool.map(c12._replay_chunk, chunks(cases, 64))
        evs = [x for part in res for x in part]
        # ---------------- arbitrary strings
        from .. import inputs
        from ..mutate import mutate
        from .. import render_stmt
        corpus = [c for c in inputs.corpus_items() if c["origin"] == "tests" and len(c["sql"]) < 1500]
        gen = chk.tlc("Stmt", __import__("harness.mods.c01", fromlist=["cfg"]).cfg(chk, "genp", 6, emit=True, invariants=["EmitCase"]),
                      "generate: near-valid SQL from Stmt.tla programs (to be mutated)", workers=1, coverage=False,
                      simulate="num=400", depth=8, seed=chk.seed)
        gens = [render_stmt.render(c["prog"]) for c in gen.cases("CASE")]
        dialects = __import__("harness.mods.c09", fromlist=["dialects"]).dialects()
        special = {"vertica": ["select swap_partitions_between_tables('a', 1)", "select swap_partitions_between_tables('a', 1, 2, 'b')",
                               "select swap_partitions_between_tables()"],
                   "ansi": ["select '{{' from t", "select 1 from t -- {{ x", "select {# c #} 1", "rename table a to b", ""],
                   "mysql": ["rename table a to b, b to a", "rename table a to b, c to d, b to c", "rename table a to tmp, b to a, tmp to b",
                             "insert into a select x from s; insert into b select y from a; rename table a to t1, b to t2, c to a, t1 to c, t2 to b"],
                   "exasol": ["SELECT seq4(), uniform(1, 10, random(12))\nFROM table(generator()) v\nORDER BY 1;"]}
        special["ansi"] += ["MERGE INTO target\nUSING src ON target.k = src.k\nWHEN NOT MATCHED THEN INSERT ( ) VALUES (src.k)",
                            "SELECT\nCASE WHEN 1 = (SELECT count(*) FROM tab1) THEN (SELECT count%s(*) FROM tab2) ELSE 0 END AS cnt"]
        jobs = []
        n = 4500 if quick else 120000
        for i in range(n):
            if gens and rnd.random() < 0.3:
                base, dia = rnd.choice(gens), "ansi"
            else:
                c = rnd.choice(corpus)
                base, dia = c["sql"], c["dialect"]
            other = rnd.choice(corpus)["sql"]
            text = mutate(rnd, base, other)
            r_ = rnd.random()
            if r_ < 0.15:
                dia = rnd.choice(dialects)
            elif r_ < 0.22:
                dia = "non-validating"
            jobs.append({"text": text, "dialect": dia, "silent": rnd.random() < 0.2})
        # valid multi-statement scripts from Chain.tla (column flows across statements) must not raise either
        from . import c04
        gch = chk.tlc("Chain", c04.cfg(chk, "genchain", 3, True, emit=True), "generate: valid scripts from Chain.tla", workers=1, coverage=False, timeout=3000)
        chs = gch.cases("CASE")
        rnd.shuffle(chs)
        for cc in chs[:400 if quick else 4000]:
            jobs.append({"text": c04.render(cc["script"], rnd.choice(["plain", "derived"])), "dialect": "ansi", "silent": False})
        # lexer-hostile characters in the select list under the dialects that give them a meaning (backtick, dollar)
        for i in range(250 if quick else 4000):
            base = rnd.choice(gens) if gens else "insert into tgt select a, b from src"
            t = base.split(" ")
            pos = rnd.randrange(1, len(t))
            t.insert(pos, rnd.choice(["`", "$", "`b", "$1", "@", "#"]) + t[pos] if rnd.random() < 0.5 else rnd.choice(["`", "$", "@@", "#"]))
            jobs.append({"text": " ".join(t), "dialect": rnd.choice(["mysql", "mariadb", "starrocks", "doris", "mysql", "bigquery", "postgres"]), "silent": False})
        for dia, texts in special.items():
            for t in texts:
                jobs.append({"text": t, "dialect": dia, "silent": False})
        # inputs of repaired escapes stay in (KF-C10-8, KF-C10-9)
        for t, dia in [("insert into x select (select max(q.a) from (select 1 as a) q) as m from t1", "ansi"),
                       ("insert into x select (select max(q.a) from (select 1 as a) q) as m from t1", "sparksql"),
                       ("select b.from (select 1) t", "non-validating"), ("insert into t select a.from (select x from y) q", "non-validating"),
                       ("update only t set a = b", "postgres"), ("update only t set a = s.b from s where t.k in (select k from r)", "postgres")]:
            jobs.append({"text": t, "dialect": dia, "silent": False})
        # ... (KF-C10-11, KF-C10-12): an inline parser directive naming an unknown dialect, a dialect grammar that gives up, UPDATE TOP (n)
        for t, dia in [("-- sqlfluff:dialect:nonexistent\nSELECT 1", "ansi"), ("UPDATE TOP (10) t SET a = s.b FROM s", "tsql"),
                       ("UPDATE TOP (10) PERCENT t SET a = 1", "tsql"),
                       ("ALTER TABLE a EXCHANGE PARTITION ( p ) WITH TABLE * INTO x FROM y", "mysql")]:
            jobs.append({"text": t, "dialect": dia, "silent": False})
        # in-file parser directives (comment lines that configure sqlfluff) in front of valid and mutated statements
        keys = ["dialect:nonexistent", "dialect:tsql", "dialect:", "templater:python", "templater:placeholder", "templater:nonexistent", "templater:raw",
                "max_line_length:x", "rules:LT01", "exclude_rules:all", "encoding:x", "large_file_skip_byte_limit:1", "runaway_limit:0",
                "templater:jinja:context:a:b", "indentation:tab_space_size:x", "nonexistent:1", ":", "dialect:ansi:x"]
        for i in range(300 if quick else 5000):
            base = rnd.choice(gens) if gens and rnd.random() < 0.5 else rnd.choice(corpus)["sql"]
            if rnd.random() < 0.3:
                base = mutate(rnd, base, rnd.choice(corpus)["sql"])
            lead = "".join("-- sqlfluff:%s\n" % rnd.choice(keys) for _ in range(rnd.choice([1, 1, 2])))
            if rnd.random() < 0.2:
                lead = lead.replace("-- sqlfluff:", rnd.choice(["--sqlfluff:", "-- noqa: disable=all\n-- sqlfluff:", "/* sqlfluff:dialect:nonexistent */ -- sqlfluff:"]))
            jobs.append({"text": lead + base, "dialect": rnd.choice(dialects) if rnd.random() < 0.3 else "ansi", "silent": rnd.random() < 0.2})
        # valid column-level statements from Col.tla (every statement kind, random expression trees) under random dialects
        from . import c02
        from .. import render_col
        gcol = chk.tlc("Col", c02.cfg(chk, "gencol", Emit=True, MaxRels=3, MaxItems=3, MaxRefs=2, TAliases={"x", "y"}, SAliases={"u", "v"}, WithUnion=True,
                                      WithLiteral=True, WithForeign=True, invariants=["EmitCase"]),
                       "generate: valid column-level statements from Col.tla", workers=1, coverage=False,
                       simulate="num=%d" % (1500 if quick else 20000), depth=12, seed=chk.seed + 3, timeout=6000)
        seen = set()
        for cc in gcol.cases("CASE"):
            k = str(cc["prog"])
            if k in seen:
                continue
            seen.add(k)
            try:
                t = render_col.render(cc["prog"], form1="tree:%d" % rnd.randrange(1 << 30), form2="tree:%d" % rnd.randrange(1 << 30),
                                      cte=rnd.random() < 0.3, join=rnd.choice(["join", "left join", "comma"]))
            except Exception:  # noqa
                continue
            jobs.append({"text": t, "dialect": rnd.choice(["ansi"] + dialects), "silent": False})
        # dialect-specific statements of the corpus under every other dialect
        spec = [c for c in corpus if c["dialect"] != "ansi"]
        rnd.shuffle(spec)
        for c in spec[:60 if quick else 150]:
            for dia in (rnd.sample(dialects, 6) if quick else dialects):
                jobs.append({"text": c["sql"], "dialect": dia, "silent": False})
        mres = pool.map(_mut_chunk, chunks(jobs, 96))
        mobs = [x for part in mres for x in part]
    finally:
        pool.terminate()
    # silent-mode histories decided by Trace_Pipeline
    traces = [{"ev": [{k: v for k, v in e.items() if k != "taps"} for e in ev]} for ev in evs]
    tcfg = os.path.join(tlc.SPEC, "Trace_Pipeline.cfg")
    v = core.validate_traces(chk, "Trace_Pipeline", tcfg, traces, "silent")
    for i, (line, verdict) in sorted(v.items()):
        chk.count(["run", [e.get("script") for e in evs[i - 1] if e["e"] == "begin"], evs[i - 1][0]["silent"], evs[i - 1][0]["p"]],
                  nontrivial="unsup" in (evs[i - 1][0].get("script") or []))
        if verdict != "ok":
            chk.reject({"module": "Pipeline", "clause": verdict}, {"clause": verdict, "events": evs[i - 1]})
    # arbitrary strings decided by Contract
    sel = [(j, o) for j, o in zip(jobs, mobs) if o["parse"] is not None]
    chk.cov["strings_the_parser_itself_failed_on"] = len(jobs) - len(sel)
    ctr = [{"parse": o["parse"], "outcome": o["outcome"], "library": o["library"]} for j, o in sel]
    verdicts = {}
    B = 20000
    for off in range(0, len(ctr), B):
        vv = core.validate_traces(chk, "Contract", os.path.join(tlc.SPEC, "Contract.cfg"), ctr[off:off + B], "contract%d" % off)
        for k, val in vv.items():
            verdicts[off + k - 1] = val
    from .. import features
    outcomes = {}
    for i, (line, verdict) in sorted(verdicts.items()):
        j, o = sel[i]
        outcomes[o["outcome"]] = outcomes.get(o["outcome"], 0) + 1
        chk.count([j["text"], j["dialect"]], nontrivial=o["outcome"] != "ok")
        if verdict != "ok":
            ansi_rejects = o["ansi_rejects"] if j["dialect"] == "non-validating" else (not all(o["parse"]) if o["parse"] else False)
            chk.reject({"module": "Contract", "clause": verdict, "dialect": j["dialect"] if j["dialect"] in ("non-validating", "vertica") else "sqlfluff",
                        "exception": o["outcome"], "features": features.features(j["text"]) or ["none"],
                        "parser_rejects_text": ansi_rejects},
                       {"text": j["text"], "dialect": j["dialect"], "silent": j["silent"], "parse_ok_per_statement": o["parse"],
                        "outcome": o["outcome"], "message": o["msg"], "clause": verdict,
                        "how": "harness.drive.dump(text, dialect) calls every public accessor; parse_ok from the sqlfluff parser called directly"})
    chk.cov["outcomes"] = outcomes
    chk.sample({"text": sel[7][0]["text"][:200], "dialect": sel[7][0]["dialect"], "parse_ok": sel[7][1]["parse"], "outcome": sel[7][1]["outcome"]})
    chk.sample({"single_run": [[e["e"], e.get("script"), e.get("silent"), e.get("outcome"), e.get("warnings")] for e in evs[len(evs) // 3] if e["e"] != "step"]})
    # self-test of the binding
    bad = core.validate_traces(chk, "Contract", os.path.join(tlc.SPEC, "Contract.cfg"),
                               [{"parse": [True], "outcome": "IndexError", "library": False}, {"parse": [True, False], "outcome": "ok", "library": True}], "selftest")
    chk.cov["traces_validated_against_impl"] -= 2
    chk.self_test("an escaping IndexError / a result for unparsable text is rejected", bad[1][1] != "ok" and bad[2][1] != "ok", "%s %s" % (bad[1][1], bad[2][1]))
    # ---------------- silent mode under other dialects: an unsupported statement that starts with the same words as a supported one
    # of the script (two real results compared: the script in silent mode against the script without the unsupported statements)
    from .. import drive as _drive
    n_pairs = 0
    for dia, U, S in SILENT_PAIRS:
        for order in ([U, S], [S, U], [U, S, U], [U, U, S, S], [S, U, S]):
            script = ";\n".join(order)
            ref = ";\n".join(x for x in order if x != U)
            a = _drive.dump(script, dia, silent=True, want_graph=False)
            b = _drive.dump(ref, dia, silent=False, want_graph=False)
            n_pairs += 1
            chk.count(["silent_pair", dia, script], nontrivial=True)
            same = all(a.get(k) == b.get(k) for k in ("exc", "source", "target", "intermediate", "paths", "cyto_table"))
            if not same or sum(1 for w in a.get("warnings", []) if "support analyzing" in w) != sum(1 for x in order if x == U):
                chk.reject({"module": "Pipeline", "clause": "silent_skip_equals_removal", "dialect": dia, "exception": a.get("exc")},
                           {"script": script, "dialect": dia, "silent": True, "observed": {k: a.get(k) for k in ("exc", "source", "target", "warnings")},
                            "without_the_unsupported_statements": {k: b.get(k) for k in ("exc", "source", "target")},
                            "how": "LineageRunner(script, dialect, silent_mode=True) against LineageRunner(script without the unsupported statements)"})
    chk.cov["silent_pairs_compared"] = n_pairs
    chk.cov["rule"] = ("cases = (a) every single-run behaviour of Pipeline.tla with scripts <= %d statements (create/use/unparsable/unsupported, "
                       "silent on/off) replayed through the real runner; (b) %d strings: corpus statements and SQL rendered from Stmt.tla "
                       "programs under seeded token deletion/duplication/swap/insertion, cross-over, bracket nesting <= 30, templating and "
                       "quoting metacharacters, dialect-specific corpus statements under other dialects; each execution decided by Contract.tla. "
                       "non-trivial = the run raised / has an unsupported statement." % (3 if quick else 4, len(jobs)))
    chk.assumptions += ["'the parser cannot parse' is decided by calling sqlfluff directly on each statement as split by the library",
                        "TLC does not generate the strings; it decides every recorded execution"]
