"""C08 - lineage is invariant under renaming of statement-local names.  The ideal layer of Stmt.tla resolves by what a name
MEANS (events tbl / cteref), never by its spelling; the renderer supplies the namings."""
import random

from .. import core, stmt_variants, tlc
from . import c01

POOLS = {
    "plain": ["q1", "q2", "q3", "q4", "q5", "q6", "q7", "q8", "q9", "q10", "q11", "q12"],
    # names equal to table bare names, the schema, a CTE name, the target, the column; still pairwise distinct
    "adversarial": ["b", "a", "s", "x", "tgt", "c1", "y", "c2", "mq", "z1", "z2", "z3"],
    "mixed_case": ["Qa", "qB", "QC", "Qd", "qE", "QF", "Qg", "qH", "QI", "Qj", "qK", "QL"],
    "quoted": ['"q 1"', '"Q2"', '"q-3"', '"q4"', '"Q 5"', '"q6"', '"q7"', '"q8"', '"q9"', '"q10"', '"q11"', '"q12"'],
}
CTE_MAPS = [None, {"a": "cte_one", "x": "cte_two"}, {"a": "zz_a", "x": "Mixed_X"}, {"a": "Mixed_A", "x": "UPPER_X"}]


def namings(rnd, quick):
    v = []
    for pool, names in POOLS.items():
        perm = list(names)
        if pool != "plain":
            rnd.shuffle(perm)
        for cm in (CTE_MAPS if not quick else [CTE_MAPS[0], rnd.choice(CTE_MAPS[1:])]):
            for alias_tables in (True, False):
                for as_kw in ((False, True) if not quick else (rnd.random() < 0.5,)):
                    v.append({"pool": pool, "perm": perm, "cte_names": cm, "alias_tables": alias_tables, "as_kw": as_kw})
    return v


def valid(prog, nm):
    """without table aliases the exposed name of a table is its bare name: then a derived-table alias must not equal one"""
    if nm["alias_tables"]:
        return True
    bare = {e["c"] for e in prog if e["e"] in ("tbl", "cteref")}
    if nm["cte_names"]:
        bare |= set(nm["cte_names"].values())
    return not (bare & {n.strip('"') for n in nm["perm"]}) and not (bare & {n.strip('"').lower() for n in nm["perm"]})


def column_part(chk, quick, rnd):
    """column level: Col.tla resolves references by INDEX; the alias pools contain other tables' bare names (a, b), so the
    rendered qualifiers collide with bare names wherever the naming layer allows it"""
    from . import c02
    r = chk.tlc("Col", c02.cfg(chk, "colmc", TAliases={"x", "b", "a", "zt"}, SAliases={"y", "b", "a"}, MaxItems=1),
                "O1 column level: resolution by name = by index under adversarial alias pools", workers=16, timeout=6000)
    if r.violated:
        raise core.MachineryError("Col.tla intended mechanism violates %s" % r.violated)
    # (zt: the bare name of the table a scalar subquery of the select list reads)
    g = chk.tlc("Col", c02.cfg(chk, "colsim", Emit=True, MaxRels=3, MaxItems=2, MaxRefs=2, TAliases={"x", "b", "a", "zt"}, SAliases={"y", "b", "a"},
                               WithUnion=True, WithForeign=True, invariants=["EmitCase"]),
                "generate: simulated column-level programs with adversarial aliases", workers=1, coverage=False,
                simulate="num=%d" % (4000 if quick else 80000), depth=12, seed=chk.seed, timeout=6000)
    seen, cases = set(), []
    for c in g.cases("CASE"):
        k = str(c["prog"])
        if k not in seen:
            seen.add(k)
            cases.append(c)
    jobs = []
    QUOTED = {"x": '"Xa"', "y": '"Select"', "a": '"A b"', "b": '"Bb"'}
    MIXED = {"x": "Xa", "y": "yB", "a": "Aq", "b": "bQ"}
    for c in cases:
        p = c["prog"]
        base = {"as_kw": rnd.random() < 0.5}
        variants = [base]
        # the same program under other spellings of its statement-local names: quoted mixed-case aliases; derived tables written
        # as CTEs read without an alias; one more table joined inside each derived table under a name the outer scope uses
        variants.append(dict(base, spell=QUOTED, cte=rnd.random() < 0.5))
        variants.append(dict(base, spell=rnd.choice([MIXED, QUOTED, None]), cte="aliased", tablesample=rnd.random() < 0.5))
        if any(r["k"] == "tbl" and r["al"] != "none" for r in p["rels"]):
            variants.append(dict(base, tablesample=True))
        if any(r["k"] == "sub" for r in p["rels"]) or (p["branch2"] and p["branch2"][0]["al"] != "none"):
            variants.append(dict(base, cte=True, spell=rnd.choice([None, QUOTED])))
            outer = [r["al"] for r in p["rels"] if r["al"] != "none"] + [r["n"] for r in p["rels"] if r["k"] == "tbl" and r["al"] == "none"]
            variants.append(dict(base, inner_join=rnd.choice(["", "as "]) + rnd.choice(outer)))
        if p["kind"] == "update":
            outer = [r["al"] for r in p["rels"] if r["al"] != "none"] + [r["n"] for r in p["rels"] if r["k"] == "tbl" and r["al"] == "none"]
            variants.append(dict(base, where_sub=rnd.choice(["", "as "]) + rnd.choice(outer)))
            variants.append(dict(base, where_sub="zq"))
        for v in (variants if not quick else [variants[0]] + ([rnd.choice(variants[1:])] if len(variants) > 1 else [])):
            jobs.append({"prog": p, "flow": c["flow"], "metadata": False, "opts": v})
    obs = c02.run_jobs(jobs)
    verdicts, keep = c02.decide(chk, jobs, obs, "colnaming")
    for (j, o), v in zip(keep, verdicts):
        chk.count(["col", j["prog"], j["opts"]], nontrivial=any(r["al"] in ("a", "b") for r in j["prog"]["rels"]) or len(j["opts"]) > 1)
    chk.cov["column_level_verdicts"] = {k: verdicts.count(k) for k in sorted(set(verdicts))}


def run(chk):
    quick = chk.tier == "quick"
    rnd = random.Random(chk.seed)
    r = chk.tlc("Stmt", c01.cfg(chk, "mc", 6 if quick else 7), "O1 (the answer depends on what names mean, not on how they are spelled)", workers=16, timeout=6000)
    if r.violated:
        raise core.MachineryError("Stmt.tla intended mechanism violates %s" % r.violated)
    g = chk.tlc("Stmt", c01.cfg(chk, "gen", 6, known=c01.ALL_DEV, emit=True), "generate: insert/query bodies", workers=1, coverage=False, timeout=6000)
    cases = g.cases("CASE")
    rnd.shuffle(cases)
    cases = cases[:260 if quick else 3000]
    # WITH in front of UPDATE / MERGE: the CTE is read in the statement's FROM / USING (for MERGE also named directly, without a
    # subquery around it) - CTE names are statement-local names too
    gw = chk.tlc("Stmt", c01.cfg(chk, "genw", 8, kinds=("update", "merge"), known=c01.ALL_DEV, emit=True, clauses={"where"}, tbl=("a",), ctes=("x",), maxrel=2),
                 "generate: WITH in front of UPDATE / MERGE", workers=1, coverage=False, timeout=6000)
    wc = [c for c in gw.cases("CASE") if any(e["e"] == "cteref" for e in c["prog"])]
    rnd.shuffle(wc)
    wc.sort(key=lambda c: len(c["prog"]))       # the small ones first: a MERGE whose source is just the CTE can name it directly
    wc = wc[:40 if quick else 600]
    cases += wc + [dict(c, merge_direct=True) for c in wc if c["prog"][0]["a"] == "merge"]
    jobs, owner = [], []
    for c in cases:
        for nm in namings(rnd, quick):
            if not valid(c["prog"], nm):
                continue
            jobs.append({"prog": c["prog"], "opts": {"names_pool": nm["perm"], "cte_names": nm["cte_names"], "alias_tables": nm["alias_tables"],
                                                     "as_kw": nm["as_kw"], "merge_direct": c.get("merge_direct", False),
                                                     # alias-less "c1 in (select c1 from s.a , b)" is read by the parser as an IN list
                                                     # (<subquery>, b): write EXISTS there so the text means the program
                                                     "where_op": "in" if nm["alias_tables"] else "exists"},
                         "check_accept": True, "naming": nm["pool"]})
            owner.append(c)
    obs = stmt_variants.run(jobs)
    sel_c, sel_o, sel_j = [], [], []
    skipped = 0
    for c, o, j in zip(owner, obs, jobs):
        if "skip" in o:
            skipped += 1
            continue
        sel_c.append(c)
        sel_o.append(o)
        sel_j.append(j)
    chk.cov["variants_rejected_by_the_parser_itself"] = skipped
    verdicts = c01.decide(chk, sel_c, sel_o, "naming")
    for c, j in zip(sel_c, sel_j):
        chk.count([c["prog"], j["opts"]], nontrivial=j["naming"] != "plain" or j["opts"]["cte_names"] is not None)
    chk.cov["verdicts"] = {k: verdicts.count(k) for k in sorted(set(verdicts))}
    k = min(len(sel_o) - 1, 23)
    chk.sample({"sql": sel_o[k]["sql"], "naming": sel_j[k]["naming"], "verdict": verdicts[k]})
    column_part(chk, quick, rnd)
    chk.cov["rule"] = ("cases = (program, naming): %d programs printed by TLC from Stmt.tla x namings of statement-local names: alias pools "
                       "(plain; adversarial = equal to other tables' bare names, the schema, a CTE, the target, the column; mixed case; quoted), "
                       "fresh CTE names, table aliases on/off, AS on/off. non-trivial = a non-plain pool or renamed CTEs." % len(cases))
    chk.assumptions += ["namings keep exposed names pairwise distinct per statement and CTE names fresh (no capture)",
                        "column level: Col.tla programs under alias pools that contain other tables' bare names, decided by Trace_Col"]
