"""C07 - lineage is invariant under layout, comments and letter case.  Layout does not exist in the abstract program: the
refinement mapping text -> program is many-to-one and the specification's answer depends on the program only (Stmt.tla)."""
from harness import REPO as _REPO
import random

from .. import core, stmt_variants, tlc
from . import c01


def spellings(rnd, nb, quick):
    v = [{"kw_upper": True}, {"ident_upper": True}, {"kw_upper": True, "ident_upper": True}, {"quote": ['"', '"']},
         {"trailing_semicolons": 1}, {"trailing_semicolons": 3}, {"sep": "\t"}, {"sep": "  "}, {"sep": "\n"}, {"as_kw": True}]
    bs = list(range(1, nb))
    if quick:
        rnd.shuffle(bs)
        bs = bs[:3]
    for i in bs:
        v.append({"comment_at": i})
        v.append({"comment_at": i, "comment": "-- c;omment\n"})
        v.append({"newline_at": i})
    return v


def run(chk):
    quick = chk.tier == "quick"
    rnd = random.Random(chk.seed)
    r = chk.tlc("Stmt", c01.cfg(chk, "mc", 6 if quick else 7), "O1 (the answer is a function of the program)", workers=16, timeout=6000)
    if r.violated:
        raise core.MachineryError("Stmt.tla intended mechanism violates %s" % r.violated)
    g = chk.tlc("Stmt", c01.cfg(chk, "gen", 6, known=c01.ALL_DEV, emit=True), "generate: insert/query bodies", workers=1, coverage=False, timeout=6000)
    cases = g.cases("CASE")
    gk = chk.tlc("Stmt", c01.cfg(chk, "genk", 5, kinds=("ctas", "view", "update", "merge", "delete"), known=c01.ALL_DEV, emit=True, tbl=("a",), ctes=("x",)),
                 "generate: other statement kinds", workers=1, coverage=False, timeout=6000)
    kinds = gk.cases("CASE")
    rnd.shuffle(cases)
    rnd.shuffle(kinds)
    cases = cases[:220 if quick else 2500] + kinds[:80 if quick else 600]
    from .. import render_stmt as R
    jobs, owner = [], []
    for c in cases:
        nb = R.n_boundaries(c["prog"])
        for sp in spellings(rnd, nb, quick):
            jobs.append({"prog": c["prog"], "opts": sp, "check_accept": True})
            owner.append(c)
    obs = stmt_variants.run(jobs)
    sel_c, sel_o, sel_j = [], [], []
    skipped = 0
    for c, o, j in zip(owner, obs, jobs):
        if "skip" in o:
            skipped += 1
            continue
        sel_c.append(c)
        sel_o.append(o)
        sel_j.append(j)
    chk.cov["variants_rejected_by_the_parser_itself"] = skipped
    verdicts = c01.decide(chk, sel_c, sel_o, "spell")
    for c, j in zip(sel_c, sel_j):
        chk.count([c["prog"], j["opts"]], nontrivial=("comment_at" in j["opts"] or "newline_at" in j["opts"]))
    chk.cov["verdicts"] = {k: verdicts.count(k) for k in sorted(set(verdicts))}
    k = min(len(sel_o) - 1, 17)
    chk.sample({"sql": sel_o[k]["sql"], "spelling": sel_j[k]["opts"], "verdict": verdicts[k]})
    corpus_part(chk, quick, rnd)
    chk.cov["rule"] = ("cases = (program, spelling): %d programs printed by TLC from Stmt.tla x spelling variants from the token renderer "
                       "(block / line comment and newline at token boundaries - all boundaries in thorough, 3 seeded per program in quick; "
                       "keyword case, identifier case, quoting of lower-case identifiers, trailing semicolons, tab / double blank / newline "
                       "separators, AS) + corpus statements rewritten at lexer-token level; a variant counts when the parser called directly "
                       "accepts it. non-trivial = a comment or newline inserted between tokens." % len(cases))
    chk.assumptions += ["comments/newlines inside dotted names are not produced (the parser itself rejects them)",
                        "corpus statements have no abstract program: their rewritten spellings are compared with the canonical spelling's "
                        "recorded result (tables and named column pairs) directly"]


def _corpus_chunk(items):
    import os
    import re
    import sys
    import warnings
    os.chdir("/tmp")
    warnings.simplefilter("ignore")
    if _REPO not in sys.path:
        sys.path.insert(0, _REPO)
    from sqlfluff.core import Lexer
    from .. import drive, stmt_drv
    out = []
    for it in items:
        sql, dia, seed = it["sql"], it["dialect"], it["seed"]
        rnd = random.Random(seed)
        try:
            toks, viol = Lexer(dialect="ansi" if dia == "non-validating" else dia).lex(sql)
        except Exception:  # noqa
            continue
        toks = [t for t in toks if t.raw != ""]
        def ends_line_comment(i):
            # the newline that terminates a -- comment is part of the comment: replacing it would comment out the next line
            k = i - 1
            while k >= 0 and toks[k].type != "newline":
                if toks[k].raw.startswith(("--", "#", "//")):
                    return True
                k -= 1
            return False
        ws = [i for i, t in enumerate(toks) if t.type in ("whitespace", "newline") and 0 < i < len(toks) - 1
              and toks[i - 1].raw != "." and toks[i + 1].raw != "." and not (t.type == "newline" and ends_line_comment(i))]
        variants = []
        if ws:
            for i in rnd.sample(ws, min(len(ws), it["n"])):
                variants.append(("comment", "".join(t.raw if k != i else " /* c;x */ " for k, t in enumerate(toks))))
                variants.append(("newline", "".join(t.raw if k != i else "\n" for k, t in enumerate(toks))))
                variants.append(("line_comment", "".join(t.raw if k != i else " -- c;x\n" for k, t in enumerate(toks))))
        variants.append(("upper", "".join(t.raw.upper() if t.type == "word" else t.raw for t in toks)))
        # quoting one lower-case part of a dotted name (a part followed by a dot is a qualifier, never a function or keyword)
        qc = ("`", "`") if dia in ("mysql", "mariadb", "bigquery", "hive", "sparksql", "databricks", "doris", "starrocks", "clickhouse", "impala") \
            else ("[", "]") if dia == "tsql" else ('"', '"')
        FORMATS = {"json", "parquet", "csv", "orc", "delta", "text", "avro", "jdbc", "binaryfile"}      # spark: SELECT * FROM json.`path` names a file format
        parts = [i for i, t in enumerate(toks) if t.type == "word" and t.raw == t.raw.lower() and t.raw.isidentifier() and i + 1 < len(toks) and t.raw not in FORMATS
                 and toks[i + 1].raw == "." and (i == 0 or toks[i - 1].raw not in ("@", "$", ":"))]
        for i in (rnd.sample(parts, min(len(parts), it["n"])) if parts else []):
            variants.append(("quote_one_part", "".join(t.raw if k != i else qc[0] + t.raw + qc[1] for k, t in enumerate(toks))))
        # a line break between the words of a multi-word join
        jw = [i for i, t in enumerate(toks) if t.type in ("whitespace",) and 0 < i < len(toks) - 1
              and toks[i - 1].raw.lower() in ("left", "right", "full", "inner", "cross", "outer", "natural") and toks[i + 1].raw.lower() in ("join", "outer")]
        if jw:
            variants.append(("join_words_on_two_lines", "".join(t.raw if k not in jw else "\n" for k, t in enumerate(toks))))
            variants.append(("join_words_tab", "".join(t.raw if k not in jw else "\t" for k, t in enumerate(toks))))
        # a comment directly inside the brackets of every nested query
        ob = [i for i, t in enumerate(toks) if t.raw == "(" and any(x.raw.lower() in ("select", "with") for x in toks[i + 1:i + 3] if x.type == "word")]
        if ob:
            variants.append(("comment_after_open_bracket", "".join(t.raw + (" /* c;x */ " if k in ob else "") for k, t in enumerate(toks))))
            variants.append(("line_comment_after_open_bracket", "".join(t.raw + (" -- c;x\n" if k in ob else "") for k, t in enumerate(toks))))
        variants.append(("semicolons", sql.rstrip().rstrip(";") + ";;"))
        # two rewrites together: extra semicolons with a comment between them
        variants.append(("semicolons_block_comment", sql.rstrip().rstrip(";") + "; /* c */ ;"))
        variants.append(("semicolons_line_comment", sql.rstrip().rstrip(";") + ";\n-- c\n;"))
        base = drive.dump(sql, dia, metadata=it["metadata"], want_graph=False)
        if base["exc"] != "none":
            continue

        def proj(d):
            named = re.compile(r"^[A-Za-z_][A-Za-z_0-9$]*$|^\*$")
            pairs = sorted((s, t) for (s, t, n) in drive.pairs(d) if named.match(t[1]))
            return {"s": d.get("source"), "t": d.get("target"), "i": d.get("intermediate"), "pairs": pairs, "exc": d["exc"]}
        pb = proj(base)
        for kind, text in variants:
            if text == sql:
                continue
            if not stmt_drv.accepts(text, "ansi" if dia == "non-validating" else dia):
                out.append({"skip": True})
                continue
            d = drive.dump(text, dia, metadata=it["metadata"], want_graph=False)
            pv = proj(d)
            out.append({"same": pv == pb, "kind": kind, "sql": sql, "variant": text, "dialect": dia, "canonical": pb, "observed": pv,
                        "origin": it["origin"]})
    return out


def corpus_part(chk, quick, rnd):
    import multiprocessing as mp
    from .. import features, inputs
    items = [dict(c, seed=rnd.randrange(1 << 30), n=2 if quick else 12) for c in inputs.corpus_items() if c["origin"] == "tests" or not quick]
    # the statements the repository's tests also give to the sqlparse analyzer: a share of them under that analyzer too
    from .. import corpus as _corpus
    nv = [c for c in _corpus.harvest() if c.get("sqlparse") and c["origin"] == "tests" and c["dialect"] == "ansi"]
    rnd.shuffle(nv)
    items += [{"sql": c["sql"], "dialect": "non-validating", "metadata": c["metadata"], "origin": c["origin"], "seed": rnd.randrange(1 << 30), "n": 2 if quick else 12}
              for c in nv[:120 if quick else len(nv)]]
    # shapes the corpus lacks: a query nested in the ELSE branch of a CASE, in a function argument inside an expression, in doubled
    # brackets, below a bracketed condition, in an ON condition; a three-part name; a multi-word join
    extra = ["insert into x select case when a.c > 0 then 1 else (select max(d) from s.q) end as m from t1 a",
             "insert into x select a.c + coalesce((select max(d) from s.q), 0) as m from t1 a left outer join t2 b on a.i = b.i",
             "insert into x select ((select max(d) from s.q)) as m, a.e from db1.sch1.t1 a",
             "insert into x select case when (a.d = coalesce(((select max(zc) from zt)), 0)) then 1 else 0 end as k from s.a a",
             "insert into x select a.c from t1 a inner join t2 b on a.i in (select i from t3) full outer join db1.sch1.t4 c on a.i = c.i"]
    pinned = [{"sql": q, "dialect": d, "metadata": None, "origin": "pinned", "seed": rnd.randrange(1 << 30), "n": 24} for q in extra for d in ("ansi", "non-validating")]
    if quick:
        rnd.shuffle(items)
        items = pinned + items
        # statements with a query nested in an expression (scalar subqueries: text handed to a second parser) are always in,
        # rewritten at many boundaries
        nested = [dict(c, n=24) for c in items if "scalar_subquery_in_select_list" in (features.features(c["sql"], c["dialect"]) or [])][:12]
        items = nested + items[:220 + len(pinned)]
    else:
        items = pinned + items
    pool = mp.Pool(16)
    try:
        res = pool.map(_corpus_chunk, stmt_variants.chunks(items, 96))
    finally:
        pool.terminate()
    flat = [x for part in res for x in part]
    chk.cov["corpus_variants"] = sum(1 for x in flat if "same" in x)
    chk.cov["corpus_variants_rejected_by_the_parser_itself"] = sum(1 for x in flat if x.get("skip"))
    for x in flat:
        if "same" not in x:
            continue
        chk.count(["corpus", x["variant"], x["dialect"]], nontrivial=x["kind"] in ("comment", "newline"))
        if not x["same"]:
            chk.reject({"module": "Corpus", "clause": "spelling_changes_result", "rewrite": x["kind"], "dialect": x["dialect"],
                        "input": features.sql_id(x["sql"], x["dialect"])},
                       {k: x[k] for k in ("sql", "variant", "dialect", "canonical", "observed", "origin", "kind")})
