"""C09 - dialects and both parsers agree on core SQL.  Spec: Stmt.tla / Trace_Stmt.tla (the specification has no dialect:
agreement = every accepting dialect conforms to the same ideal answer)."""
from harness import REPO as _REPO
import os
import random

from .. import core, stmt_variants, tlc
from . import c01

DIALECTS = None


def dialects():
    import sys
    if _REPO not in sys.path:
        sys.path.insert(0, _REPO)
    from sqlfluff.core import dialect_readout
    return sorted(d.label for d in dialect_readout())


def column_part(chk, quick, rnd):
    """column level across dialects, with metadata: Col.tla programs (every statement kind, the provider knowing some sources and
    possibly the target) under ansi and a random third of the dialects; Trace_Col decides each against the dialect-free ideal"""
    from . import c02
    g = chk.tlc("Col", c02.cfg(chk, "colgen", Emit=True, MaxRels=2, MaxItems=2, MaxRefs=2, TAliases={"x"}, SAliases={"u"}, WithMeta=True, WithUnion=True,
                               invariants=["EmitCase"]),
                "generate: simulated column-level programs with metadata", workers=1, coverage=False,
                simulate="num=%d" % (3000 if quick else 40000), depth=12, seed=chk.seed + 7, timeout=6000)
    seen, cases = set(), []
    for c in g.cases("CASE"):
        k = str(c["prog"])
        if k not in seen:
            seen.add(k)
            cases.append(c)
    rnd.shuffle(cases)
    # programs where the provider knows the target come first: that is where statement kinds are told apart
    cases.sort(key=lambda c: not c["prog"]["tk"])
    cases = cases[:260 if quick else 5000]
    allds = [d for d in dialects() if d != "ansi"]
    jobs = []
    for c in cases:
        for d in ["ansi"] + (rnd.sample(allds, len(allds) // 3) if quick else allds):
            jobs.append({"prog": c["prog"], "flow": c["flow"], "metadata": True, "dialect": d, "opts": {}})
    obs = c02.run_jobs(jobs)
    verdicts, keep = c02.decide(chk, jobs, obs, "coldial")
    for (j, o), v in zip(keep, verdicts):
        chk.count(["col", j["prog"], j["dialect"]], nontrivial=j["dialect"] != "ansi")
    chk.cov["column_level_verdicts"] = {k: verdicts.count(k) for k in sorted(set(verdicts))}
    chk.cov["column_level_rejected_by_the_parser_itself"] = len(jobs) - len(keep)


def run(chk):
    quick = chk.tier == "quick"
    rnd = random.Random(chk.seed)
    r = chk.tlc("Stmt", c01.cfg(chk, "mc", 6 if quick else 7, kinds=("insert", "ctas", "view", "update", "merge", "query", "delete", "select_into")),
                "O1 every statement kind (no dialect in the specification)", workers=16, timeout=6000)
    if r.violated:
        raise core.MachineryError("Stmt.tla intended mechanism violates %s" % r.violated)
    g = chk.tlc("Stmt", c01.cfg(chk, "gen", 5 if quick else 6, kinds=("insert", "ctas", "view", "update", "merge", "query", "delete", "select_into"),
                                known=c01.ALL_DEV, emit=True, tbl=("a",), ctes=("x",)),
                "generate: every statement kind over small bodies", workers=1, coverage=False, timeout=6000)
    cases = g.cases("CASE")
    g2 = chk.tlc("Stmt", c01.cfg(chk, "gen2", 6, known=c01.ALL_DEV, emit=True), "generate: insert/query bodies", workers=1, coverage=False, timeout=6000)
    more = g2.cases("CASE")
    rnd.shuffle(more)
    cases += more[:150 if quick else 3000]
    # FROM shapes the dialect grammars parse differently: parenthesised joins; subqueries on both sides of a comparison, in ON
    # conditions, nested set operations
    g3 = chk.tlc("Stmt", c01.cfg(chk, "gen3", 6 if quick else 7, kinds=("insert",), known=c01.ALL_DEV, emit=True, clauses=c01.PAREN_CLAUSES, tbl=("a", "b"), ctes=("x",),
                                 schemas=("none",)), "generate: parenthesised joins", workers=1, coverage=False, timeout=6000)
    shapes = [c for c in g3.cases("CASE") if any(e["e"] == "paren" for e in c["prog"])]
    g4 = chk.tlc("Stmt", c01.cfg(chk, "gen4", 8, kinds=("insert",), known=c01.ALL_DEV, emit=True, clauses=c01.NEST_CLAUSES, tbl=("a", "b"), ctes=("x",),
                                 schemas=("none",), maxcte=0), "generate: ON subqueries, nested set operations, two WHERE subqueries", workers=1, coverage=False, timeout=6000)
    shapes += [c for c in g4.cases("CASE") if any(e["e"] in ("on", "ubranch") for e in c["prog"]) or sum(1 for e in c["prog"] if e["e"] == "where") >= 2]
    g5 = chk.tlc("Stmt", c01.cfg(chk, "gen5", 10, kinds=("insert",), known=c01.ALL_DEV, emit=True, clauses={"where", "where2"}, tbl=("a", "b"), ctes=("x",),
                                 schemas=("none",), maxcte=0, maxrel=1, maxdepth=1), "generate: subqueries on both sides of a comparison", workers=1,
                 coverage=False, timeout=6000)
    both = [c for c in g5.cases("CASE") if sum(1 for e in c["prog"] if e["e"] == "where") >= 2]
    rnd.shuffle(both)
    shapes += both[:60 if quick else 2000]
    g6 = chk.tlc("Stmt", c01.cfg(chk, "gen6", 12, kinds=("insert",), known=c01.ALL_DEV, emit=True, clauses={"union", "ubranch"}, tbl=("a", "b"), ctes=("x",),
                                 schemas=("none",), maxcte=0, maxrel=1, maxdepth=3), "generate: set operations nested two levels deep", workers=1,
                 coverage=False, timeout=6000)
    deep = [c for c in g6.cases("CASE") if sum(1 for e in c["prog"] if e["e"] == "ubranch") >= 2]
    rnd.shuffle(deep)
    shapes += deep[:40 if quick else 1000]
    # programs where the listed deviation of the shared machinery fires (a CTE body reading a table named like the CTE): the analysers
    # have to agree on those too
    g7 = chk.tlc("Stmt", c01.cfg(chk, "gen7", 7, kinds=("insert", "query"), known=c01.ALL_DEV, emit=True, clauses={"where"}, tbl=("a",), ctes=("a",),
                                 maxrel=2), "generate: CTE named like a table it reads", workers=1, coverage=False, timeout=6000)
    selfn = [c for c in g7.cases("CASE") if c.get("fired")]
    rnd.shuffle(selfn)
    shapes += selfn[:40 if quick else 1000]
    rnd.shuffle(shapes)
    # a FROM clause that is one parenthesised join and nothing else - FROM ( a JOIN b ON .. ) - is parsed differently by some dialect
    # grammars (redshift: from_clause > bracketed > from_expression): a dozen of those run under every dialect in every run
    def only_paren(prog):
        i = next((k for k, e in enumerate(prog) if e["e"] == "main"), None)
        if i is None or i + 1 >= len(prog) or prog[i + 1]["e"] != "paren" or prog[i + 1]["a"] != "first":
            return False
        depth = 0
        for k in range(i + 1, len(prog)):
            e = prog[k]["e"]
            if e in ("paren", "sub", "where", "isub", "having", "on", "ubranch"):
                depth += 1
            elif e == "end":
                depth -= 1
                if depth == 0:
                    return k + 2 == len(prog) and prog[k + 1]["e"] == "end"
        return False
    whole = [dict(c, all_dialects=True) for c in shapes if only_paren(c["prog"])][:12 if quick else 200]
    allds = [d for d in dialects() if d != "ansi"]
    if quick:
        rnd.shuffle(cases)
        cases = cases[:450] + shapes[:380] + whole
    else:
        cases += shapes[:4000] + whole
    jobs, owner = [], []
    for c in cases:
        # quick: every program under ansi, the sqlparse analyzer and a random third of the other dialects - all dialects every run
        ds = allds if (not quick or c.get("all_dialects")) else rnd.sample(allds, len(allds) // 3)
        has_where = any(e["e"] == "where" for e in c["prog"])
        for d in ["ansi"] + ds + ["non-validating"]:
            # where the WHERE subquery sits in its condition is drawn per (program, dialect): every dialect meets every position
            wop = rnd.choice(["in", "in", "exists", "in_with_bracket", "all", "nested_bool"]) if has_where else "in"
            jobs.append({"prog": c["prog"], "dialect": d, "check_accept": d != "non-validating", "opts": {"where_op": wop}})
            owner.append(c)
    obs = stmt_variants.run(jobs)
    sel_c, sel_o = [], []
    skipped = 0
    ds = allds
    for i, o in enumerate(obs):
        c = owner[i]
        if "skip" in o:
            skipped += 1
            continue
        sel_c.append(c)
        sel_o.append(o)
    chk.cov["variants_rejected_by_the_parser_itself"] = skipped
    column_part(chk, quick, rnd)
    verdicts = c01.decide(chk, sel_c, sel_o, "dial")
    # agreement itself: for one program, an analyser that conforms to the ideal next to one that shows a listed deviation of the
    # shared machinery is a disagreement between them (per-dialect findings are rejections and do not take part)
    groups = {}
    for c, o, v in zip(sel_c, sel_o, verdicts):
        if v in ("ok", "known"):
            groups.setdefault(id(c), []).append((o, v, c))
    for g in groups.values():
        kinds = {v for _, v, _ in g}
        if len(kinds) > 1:
            odd = [o for o, v, _ in g if v == "ok"]
            dev = [o for o, v, _ in g if v == "known"]
            chk.reject({"module": "Stmt", "clause": "dialects_disagree", "dialect": odd[0]["dialect"] if len(odd) <= len(dev) else dev[0]["dialect"],
                        "features": c01.prog_features(g[0][2]["prog"])},
                       {"verdict": "dialects_disagree", "sql": g[0][0]["sql"], "dialect": odd[0]["dialect"], "ideal_reads": sorted(g[0][2]["reads"]),
                        "ideal_target": sorted(g[0][2]["target"]), "observed": {"conforming": [(o["dialect"], o["reads"]) for o in odd][:6],
                                                                                 "deviating": [(o["dialect"], o["reads"]) for o in dev][:6]},
                        "program": g[0][2]["prog"]})
    byd = {}
    for o, v in zip(sel_o, verdicts):
        byd.setdefault(o["dialect"], {}).setdefault(v if v in ("ok", "known") else "rejected", 0)
        byd[o["dialect"]][v if v in ("ok", "known") else "rejected"] += 1
    chk.cov["per_dialect"] = byd
    for c, o in zip(sel_c, sel_o):
        chk.count([c["prog"], o["dialect"]], nontrivial=o["dialect"] != "ansi")
    chk.sample({"sql": sel_o[0]["sql"], "dialect": sel_o[0]["dialect"], "observed": sel_o[0]["reads"], "verdict": verdicts[0]})
    chk.sample({"dialects_this_run": ["ansi"] + ds + ["non-validating"]})
    chk.cov["rule"] = ("cases = (program, dialect): %d programs printed by TLC from Stmt.tla (every statement kind over small bodies + sampled "
                       "insert/query bodies) x %d sqlfluff dialects (%s) + the sqlparse analyzer; a cell counts when the parser called "
                       "directly accepts the rendering; every observation decided by Trace_Stmt against the dialect-free ideal. "
                       "non-trivial = dialect other than ansi." % (len(cases), len(ds) + 1, "all installed" if not quick else "ansi + a random third per program"))
    chk.assumptions += ["'the dialect accepts the statement' is decided by calling the sqlfluff parser directly",
                        "column level: Col.tla programs with metadata under ansi + a random third of the dialects per program (all in thorough), decided by Trace_Col"]
