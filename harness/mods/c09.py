"""C09 - dialects and both parsers agree on core SQL.  Spec: Stmt.tla / Trace_Stmt.tla (the specification has no dialect:
agreement = every accepting dialect conforms to the same ideal answer)."""
from harness import REPO as _REPO
import os
import random

from .. import core, stmt_variants, tlc
from . import c01

DIALECTS = None


def dialects():
    import sys
    if _REPO not in sys.path:
        sys.path.insert(0, _REPO)
    from sqlfluff.core import dialect_readout
    return sorted(d.label for d in dialect_readout())


def run(chk):
    quick = chk.tier == "quick"
    rnd = random.Random(chk.seed)
    r = chk.tlc("Stmt", c01.cfg(chk, "mc", 6 if quick else 7, kinds=("insert", "ctas", "view", "update", "merge", "query", "delete", "select_into")),
                "O1 every statement kind (no dialect in the specification)", workers=16, timeout=6000)
    if r.violated:
        raise core.MachineryError("Stmt.tla intended mechanism violates %s" % r.violated)
    g = chk.tlc("Stmt", c01.cfg(chk, "gen", 5 if quick else 6, kinds=("insert", "ctas", "view", "update", "merge", "query", "delete", "select_into"),
                                known=c01.ALL_DEV, emit=True, tbl=("a",), ctes=("x",)),
                "generate: every statement kind over small bodies", workers=1, coverage=False, timeout=6000)
    cases = g.cases("CASE")
    g2 = chk.tlc("Stmt", c01.cfg(chk, "gen2", 6, known=c01.ALL_DEV, emit=True), "generate: insert/query bodies", workers=1, coverage=False, timeout=6000)
    more = g2.cases("CASE")
    rnd.shuffle(more)
    cases += more[:150 if quick else 3000]
    allds = [d for d in dialects() if d != "ansi"]
    if quick:
        k = chk.seed % 3
        ds = [d for i, d in enumerate(allds) if i % 3 == k]
        rnd.shuffle(cases)
        cases = cases[:450]
    else:
        ds = allds
    jobs = []
    for c in cases:
        for d in ["ansi"] + ds + ["non-validating"]:
            jobs.append({"prog": c["prog"], "dialect": d, "check_accept": d != "non-validating"})
    obs = stmt_variants.run(jobs)
    sel_c, sel_o = [], []
    skipped = 0
    ci = 0
    per = len(ds) + 2
    for i, o in enumerate(obs):
        c = cases[i // per]
        if "skip" in o:
            skipped += 1
            continue
        sel_c.append(c)
        sel_o.append(o)
    chk.cov["variants_rejected_by_the_parser_itself"] = skipped
    verdicts = c01.decide(chk, sel_c, sel_o, "dial")
    byd = {}
    for o, v in zip(sel_o, verdicts):
        byd.setdefault(o["dialect"], {}).setdefault(v if v in ("ok", "known") else "rejected", 0)
        byd[o["dialect"]][v if v in ("ok", "known") else "rejected"] += 1
    chk.cov["per_dialect"] = byd
    for c, o in zip(sel_c, sel_o):
        chk.count([c["prog"], o["dialect"]], nontrivial=o["dialect"] != "ansi")
    chk.sample({"sql": sel_o[0]["sql"], "dialect": sel_o[0]["dialect"], "observed": sel_o[0]["reads"], "verdict": verdicts[0]})
    chk.sample({"dialects_this_run": ["ansi"] + ds + ["non-validating"]})
    chk.cov["rule"] = ("cases = (program, dialect): %d programs printed by TLC from Stmt.tla (every statement kind over small bodies + sampled "
                       "insert/query bodies) x %d sqlfluff dialects (%s) + the sqlparse analyzer; a cell counts when the parser called "
                       "directly accepts the rendering; every observation decided by Trace_Stmt against the dialect-free ideal. "
                       "non-trivial = dialect other than ansi." % (len(cases), len(ds) + 1, "all installed" if not quick else "ansi + a rotating third by seed"))
    chk.assumptions += ["'the dialect accepts the statement' is decided by calling the sqlfluff parser directly",
                        "column-level agreement across dialects is checked by C02's dialect sweep"]
