"""C04 - column lineage chains across statements.  Spec: Chain.tla / Trace_Chain.tla."""
from harness import REPO as _REPO
import copy
import multiprocessing as mp
import os
import random

from .. import core, tlc

TARGETS = ["m1", "m2", "m3", "fin"]


def cfg(chk, name, maxstmts, provider, emit=False):
    return tlc.write_cfg(os.path.join(chk.work, name + ".cfg"),
                         constants=dict(MaxStmts=maxstmts, Provider=provider, Emit=emit, Known=set()),
                         invariants=["UnconsumedEndAtIntermediate", "ChainsCompose", "EmitCase"])


def render(script, style="plain"):
    out = []
    head = "create table %s as" if style == "ctas_stale" else "insert into %s"
    for k, s in enumerate(script):
        t, f = TARGETS[k], s["f"]
        if style == "ctas_stale":
            # every statement DEFINES its target (CREATE TABLE AS) while the provider's catalog still lists an older layout of it:
            # what the script says about a table it creates wins over the catalog
            pass
        if s["k"] == "mk" and style == "derived":
            # the same flows through a derived table that every statement calls q (a statement-local name re-used across statements)
            inner = ", ".join(sorted({i["c"] for i in s["items"]}))
            its = ", ".join("q." + i["c"] if i["c"] == i["al"] else "q.%s as %s" % (i["c"], i["al"]) for i in s["items"])
            out.append((head + " select %s from (select %s from %s) q") % (t, its, inner, f))
        elif s["k"] == "mk":
            its = ", ".join(i["c"] if i["c"] == i["al"] else "%s as %s" % (i["c"], i["al"]) for i in s["items"])
            out.append((head + " select %s from %s") % (t, its, f))
        elif s["k"] == "expr":
            out.append((head + " select a + b as s from %s") % (t, f))
        elif s["k"] == "star":
            out.append((head + " select * from %s") % (t, f))
        elif s["k"] == "unq2":
            out.append((head + " select %s as x2, %s as y2 from %s join oth on 1 = 1") % (t, s["c"], s["c"], f))
        else:
            out.append((head + " select %s from %s join oth on 1 = 1") % (t, s["c"], f))
    return ";\n".join(out)


def _layouts_defined(script):
    known = {}
    for k, st in enumerate(script):
        if st["k"] == "star":
            if not known.get(st["f"], False):
                return False
        known[TARGETS[k]] = True
    return True


def _chunk(cases):
    import sys
    import warnings
    os.chdir("/tmp")
    warnings.simplefilter("ignore")
    if _REPO not in sys.path:
        sys.path.insert(0, _REPO)
    from sqllineage.core.metadata.dummy import DummyMetaDataProvider
    from sqllineage.runner import LineageRunner
    out = []

    def short(n):
        return n.split(".", 1)[1] if n.startswith("<default>.") else n

    def atom(c):
        if c.parent is not None:
            return [short(str(c.parent)), c.raw_name]
        cands = [short(str(x)) for x in c.parent_candidates]
        other = [x for x in cands if x != "oth"]
        return ["?" + "|".join(other + ["oth"]), c.raw_name]
    for c in cases:
        sql = render(c["script"], c.get("style", "plain"))
        o = {"sql": sql, "exc": "none", "pairs": []}
        try:
            md = {"zz.unrelated": ["q"]}
            if c.get("style") == "ctas_stale":
                md.update({"<default>." + t: ["stale_1", "stale_2", "stale_3"] for t in TARGETS})
            kw = {"metadata_provider": DummyMetaDataProvider(md)} if c["provider"] else {}
            lr = LineageRunner(sql, **kw)
            o["pairs"] = sorted({(tuple(atom(p[0])), tuple(atom(p[-1]))) for p in lr.get_column_lineage()})
            o["pairs"] = [[list(a), list(b)] for a, b in o["pairs"]]
            o["paths"] = [[str(x) for x in p] for p in lr.get_column_lineage()][:12]
        except Exception as e:  # noqa
            o["exc"] = type(e).__name__
        out.append(o)
    return out


def chunks(xs, n):
    k = max(1, (len(xs) + n - 1) // n)
    return [xs[i:i + k] for i in range(0, len(xs), k)]


def run(chk):
    quick = chk.tier == "quick"
    rnd = random.Random(chk.seed)
    cases = []
    for prov in (True, False):
        r = chk.tlc("Chain", cfg(chk, "mc%s" % prov, 4, prov), "O1 every script <= 4 statements, provider=%s" % prov, workers=16, timeout=3000)
        if r.violated:
            raise core.MachineryError("Chain.tla violates %s" % r.violated)
        g = chk.tlc("Chain", cfg(chk, "gen%s" % prov, 3 if quick else 4, prov, emit=True), "generate: every script, provider=%s" % prov, workers=1,
                    coverage=False, timeout=3000)
        cs = g.cases("CASE")
        if quick:
            g4 = chk.tlc("Chain", cfg(chk, "gens%s" % prov, 4, prov, emit=True), "generate: simulated 4-statement scripts, provider=%s" % prov, workers=1,
                         coverage=False, simulate="num=150", depth=5, seed=chk.seed, timeout=3000)
            cs += [c for c in g4.cases("CASE") if len(c["script"]) == 4]
        cases += cs
        # the same scripts once more with every explicit statement written through a derived table called q
        cases += [dict(c, style="derived") for c in cs if any(s["k"] == "mk" for s in c["script"])][::3 if quick else 1]
        if prov:
            # ... and as CREATE TABLE AS statements while the catalog lists an older layout of every target
            # (a wildcard over a table whose layout the script leaves open - SELECT * FROM src - gives the catalog nothing to be
            # overruled by: such scripts are not written this way)
            cases += [dict(c, style="ctas_stale") for c in cs if _layouts_defined(c["script"])][::3 if quick else 1]
    chk.require_actions(["Next"]) if False else None
    pool = mp.Pool(16)
    try:
        res = pool.map(_chunk, chunks(cases, 64))
    finally:
        pool.terminate()
    obs = [x for part in res for x in part]
    verd = {}
    for prov in (True, False):
        idx = [i for i, c in enumerate(cases) if c["provider"] == prov]
        traces = [{"script": cases[i]["script"], "pairs": obs[i]["pairs"], "exc": obs[i]["exc"]} for i in idx]
        v = core.validate_traces(chk, "Trace_Chain", os.path.join(tlc.SPEC, "Trace_Chain_%s.cfg" % ("TRUE" if prov else "FALSE")), traces, "chain%s" % prov)
        for k, (line, verdict) in sorted(v.items()):
            i = idx[k - 1]
            verd[verdict] = verd.get(verdict, 0) + 1
            kinds = [s["k"] for s in cases[i]["script"]]
            chk.count([cases[i]["script"], prov], nontrivial=any(s["f"] != "src" for s in cases[i]["script"]))
            if verdict != "ok":
                chk.reject({"module": "Chain", "clause": verdict.split(":")[0] if not cases[i].get("samename") else "pairs_differ", "provider": prov,
                            "kinds": sorted(set(kinds)), "two_unresolved_references_same_name_different_candidates": bool(cases[i].get("samename"))},
                           {"clause": verdict, "sql": obs[i]["sql"], "provider_in_use": prov, "script": cases[i]["script"], "ideal_pairs": cases[i]["pairs"],
                            "observed_pairs": obs[i]["pairs"], "observed_paths": obs[i].get("paths")})
    chk.cov["verdicts"] = verd
    k = min(len(cases) - 1, 321)
    chk.sample({"sql": obs[k]["sql"], "provider": cases[k]["provider"], "ideal_pairs": cases[k]["pairs"], "observed": obs[k]["pairs"]})
    okc = [i for i, c in enumerate(cases) if obs[i]["pairs"] and obs[i]["exc"] == "none"]
    if okc:
        i = okc[len(okc) // 2]
        t = {"script": cases[i]["script"], "pairs": obs[i]["pairs"][1:], "exc": "none"}
        v = core.validate_traces(chk, "Trace_Chain", os.path.join(tlc.SPEC, "Trace_Chain_%s.cfg" % ("TRUE" if cases[i]["provider"] else "FALSE")), [t], "selftest")
        chk.cov["traces_validated_against_impl"] -= 1
        chk.self_test("a dropped end-to-end pair is rejected", v[1][1] != "ok", v[1][1])
    chk.cov["rule"] = ("cases = scripts printed by TLC from Chain.tla: every script of 2-%d statements (explicit / renamed / two-source expression / "
                       "SELECT * / unqualified-in-a-join, each reading the base table or any earlier target: chains, diamonds, fan-outs), with and "
                       "without a metadata provider in use; the end-to-end (first, last) pairs of the real run decided by Trace_Chain against the "
                       "composition of the per-statement flows. non-trivial = a later statement reads an earlier target." % (3 if quick else 4))
    chk.exhaustive = True
    chk.cov["exhaustive"] = True
    chk.assumptions += ["the provider in use knows an unrelated table only (it is truthy, so session metadata is consulted); in the CREATE TABLE AS rendering its catalog also lists a stale layout of every target",
                        "every unqualified-in-a-join statement joins the same second table (different candidate sets for one column name are the known deviation KF-C04-1, not generated)"]
