"""C14 - a default schema equals explicit qualification.  Spec: Stmt.tla (variable ds, Tbl fallback chain,
DefaultEqualsQualified) + Config.tla for where the value comes from."""
import random

from .. import core, stmt_variants, tlc
from . import c01

S_VALUES = ["dflt_x", "s"]      # a fresh name; a name the programs also use as an explicit qualifier


def run(chk):
    quick = chk.tier == "quick"
    rnd = random.Random(chk.seed)
    r = chk.tlc("Stmt", c01.cfg(chk, "mc", 6 if quick else 7, defschemas=("none", "s", "dflt_x")),
                "O1 with default schema unset / fresh / already used as qualifier", workers=16, timeout=6000)
    if r.violated:
        raise core.MachineryError("Stmt.tla intended mechanism violates %s" % r.violated)
    g = chk.tlc("Stmt", c01.cfg(chk, "gen", 6, known=c01.ALL_DEV, emit=True), "generate: insert/query bodies", workers=1, coverage=False, timeout=6000)
    cases = g.cases("CASE")
    gk = chk.tlc("Stmt", c01.cfg(chk, "genk", 5, kinds=("ctas", "view", "update", "merge", "delete"), known=c01.ALL_DEV, emit=True, tbl=("a",), ctes=("x",)),
                 "generate: other statement kinds", workers=1, coverage=False, timeout=6000)
    kinds = gk.cases("CASE")
    rnd.shuffle(cases)
    rnd.shuffle(kinds)
    cases = cases[:500 if quick else 5000] + kinds[:150 if quick else 700]
    all_c, all_o, all_m = [], [], []
    for S in S_VALUES:
        # (ii) scoped override, (iii) textual qualification without default - same worker pool, environment clean
        jobs, owner = [], []
        for c in cases:
            jobs.append({"prog": c["prog"], "mech": "scoped", "ds": S, "ds_expect": S})
            owner.append(c)
            jobs.append({"prog": c["prog"], "mech": "qualified", "opts": {"qualify": S}, "ds_expect": S})
            owner.append(c)
        obs = stmt_variants.run(jobs)
        # (i) environment variable, set before the library is imported by the worker processes
        jobs_e = [{"prog": c["prog"], "mech": "env", "ds_expect": S} for c in cases]
        obs_e = stmt_variants.run(jobs_e, env={"SQLLINEAGE_DEFAULT_SCHEMA": S})
        for c, o in list(zip(owner, obs)) + list(zip(cases, obs_e)):
            if "skip" in o:
                continue
            all_c.append(c)
            all_o.append(o)
    # no default at all: the placeholder schema, uniformly
    obs_n = stmt_variants.run([{"prog": c["prog"], "mech": "none"} for c in cases])
    for c, o in zip(cases, obs_n):
        all_c.append(c)
        all_o.append(o)
    verdicts = c01.decide(chk, all_c, all_o, "ds")
    for c, o in zip(all_c, all_o):
        chk.count([c["prog"], o["mech"], o["ds"]], nontrivial=o["mech"] != "none")
    chk.cov["verdicts"] = {k: verdicts.count(k) for k in sorted(set(verdicts))}
    by = {}
    for o, v in zip(all_o, verdicts):
        by.setdefault(o["mech"] + ":" + o["ds"], {}).setdefault(v if v in ("ok", "known") else "rejected", 0)
        by[o["mech"] + ":" + o["ds"]][v if v in ("ok", "known") else "rejected"] += 1
    chk.cov["per_mechanism"] = by
    k = 3
    chk.sample({"sql": all_o[k]["sql"], "mechanism": all_o[k]["mech"], "default_schema": all_o[k]["ds"], "observed": all_o[k]["reads"], "verdict": verdicts[k]})
    chk.cov["rule"] = ("cases = (program, default schema, mechanism): %d programs printed by TLC from Stmt.tla x S in {fresh name, a name the "
                       "program also uses as qualifier} x {scoped override, environment variable set before import (own worker pool), textual "
                       "qualification with no default} + no default at all; every observation decided by Trace_Stmt with ds = S. "
                       "non-trivial = a default schema is in force." % len(cases))
    chk.assumptions += ["table level here; column owners under a default schema are covered by the column-level check (C02 family) with the same mechanisms"]
