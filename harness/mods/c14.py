"""C14 - a default schema equals explicit qualification.  Spec: Stmt.tla (variable ds, Tbl fallback chain,
DefaultEqualsQualified) + Config.tla for where the value comes from."""
import random

from .. import core, stmt_variants, tlc
from . import c01

S_VALUES = ["dflt_x", "s"]      # a fresh name; a name the programs also use as an explicit qualifier


def column_part(chk, quick, rnd):
    """column owners under a default schema: Col.tla programs (incl. a qualifier that names nothing in scope and falls back to
    a table of that name) analysed under the scoped override, the environment variable and as qualified text"""
    from . import c02
    S = "dflt_x"
    g = chk.tlc("Col", c02.cfg(chk, "colgen", Emit=True, Schemas={"none", "s"}, TAliases={"x"}, SAliases={"u"}, Kinds={"insert"}, MaxItems=1, WithForeign=True),
                "generate: column-level programs with a foreign qualifier", workers=1, coverage=False, timeout=6000)
    cases = g.cases("CASE")
    rnd.shuffle(cases)
    cases = cases[:700 if quick else 6000]
    jobs = []
    for c in cases:
        sf = {"scalar_form": rnd.choice(["plain", "func", "func2"])} if any(r["r"] == 8 for it in c["prog"]["items"] for r in it["refs"]) else {}
        jobs.append({"prog": c["prog"], "flow": c["flow"], "metadata": False, "ds": S, "mech": "scoped", "opts": dict(sf)})
        # the same text with no default in force, in the same process, right after: nothing of the scope may linger - outside any
        # scope, and inside a later scope of the same thread that does not set the key
        jobs.append({"prog": c["prog"], "flow": c["flow"], "metadata": False, "mech": "none", "opts": dict(sf)})
        jobs.append({"prog": c["prog"], "flow": c["flow"], "metadata": False, "mech": "scope_without_the_key", "opts": dict(sf)})
        if not any(r["r"] == 9 for it in c["prog"]["items"] for r in it["refs"]):
            # (a schema-qualified column qualifier is not something the core grammar writes: the fallback is exercised by the
            # two configuration mechanisms only)
            jobs.append({"prog": c["prog"], "flow": c["flow"], "metadata": False, "ds": S, "mech": "qualified", "opts": {"qualify": S}})
    obs = c02.run_jobs(jobs)
    import multiprocessing as mp
    pool = mp.Pool(16, initializer=stmt_variants._init, initargs=({"SQLLINEAGE_DEFAULT_SCHEMA": S},))
    try:
        ejobs = [{"prog": c["prog"], "flow": c["flow"], "metadata": False, "ds": S, "mech": "env", "opts": {}} for c in cases]
        # a scoped override to "" wins over the environment: no default in force inside it
        ejobs += [{"prog": c["prog"], "flow": c["flow"], "metadata": False, "mech": "scope_sets_empty", "opts": {}} for c in cases[::3]]
        eres = pool.map(c02._run_chunk, c02.chunks(ejobs, 96))
    finally:
        pool.terminate()
    jobs += ejobs
    obs += [x for part in eres for x in part]
    # the other direction, with metadata: programs whose tables are all in schema s (the provider knows some of them), written
    # WITHOUT the schema while s is the default - through the environment (set before the library is imported) and the scoped override
    gm = chk.tlc("Col", c02.cfg(chk, "colgenm", Emit=True, Schemas={"s"}, TAliases={"x"}, SAliases={"u"}, Kinds={"insert"}, MaxItems=2, WithMeta=True,
                                invariants=["EmitCase"]),
                 "generate: simulated programs over schema s with metadata", workers=1, coverage=False,
                 simulate="num=%d" % (1500 if quick else 20000), depth=12, seed=chk.seed + 9, timeout=6000)
    seen, mcases = set(), []
    for c in gm.cases("CASE"):
        k = str(c["prog"])
        if k not in seen and c["prog"]["known"]:
            seen.add(k)
            mcases.append(c)
    mcases = mcases[:300 if quick else 4000]
    mj = [{"prog": c["prog"], "flow": c["flow"], "metadata": True, "ds": "s", "mech": "scoped", "keep_names": True, "opts": {"unqualify": "s"}} for c in mcases]
    obs += c02.run_jobs(mj)
    jobs += mj
    pool = mp.Pool(16, initializer=stmt_variants._init, initargs=({"SQLLINEAGE_DEFAULT_SCHEMA": "s"},))
    try:
        mje = [{"prog": c["prog"], "flow": c["flow"], "metadata": True, "ds": "s", "mech": "env", "keep_names": True, "opts": {"unqualify": "s"}} for c in mcases]
        mres = pool.map(c02._run_chunk, c02.chunks(mje, 96))
    finally:
        pool.terminate()
    jobs += mje
    obs += [x for part in mres for x in part]
    verdicts, keep = c02.decide(chk, jobs, obs, "colds")
    for (j, o), v in zip(keep, verdicts):
        chk.count(["col", j["prog"], j["mech"]], nontrivial=j["mech"] != "none")
    chk.cov["column_level_verdicts"] = {k: verdicts.count(k) for k in sorted(set(verdicts))}


def _script_chunk(jobs):
    """every prefix of a script through the real LineageRunner under one mechanism; names under the default are written back
    to bare names (the projection Trace_Script expects); a name under the placeholder while a default is in force stays as it is"""
    import warnings
    warnings.simplefilter("ignore")
    from .. import script_drv as d
    import sqllineage.runner  # noqa: before any scope is entered
    from sqllineage.config import SQLLineageConfig
    from sqllineage.runner import LineageRunner
    out = []
    for j in jobs:
        S, mech, h = j["S"], j["mech"], j["h"]
        dia = "mysql" if any(d.dialect_of(s) == "mysql" for s in h) else "ansi"

        def q(n):
            return S + "." + n if mech == "qualified" else n
        hq = [dict(s, t=q(s["t"]) if s.get("t", "none") != "none" else s.get("t", "none"), r=[q(x) for x in s["r"]],
                   w=q(s["w"]) if s["w"] != "none" else "none", pairs=[[q(a), q(b)] for a, b in s["pairs"]]) for s in h]
        sqls = [d.render(s, dia) for s in hq]
        prefix = (S + ".") if mech != "none" else "<default>."

        def short(n):
            n = str(n)
            return n[len(prefix):] if n.startswith(prefix) else n

        def summary(text):
            try:
                lr = LineageRunner(text, dialect=dia)
                cy = lr.to_cytoscape()
                return {"e": sorted([short(e["data"]["source"]), short(e["data"]["target"])] for e in cy if "source" in e["data"]),
                        "s": sorted(short(t) for t in lr.source_tables), "t": sorted(short(t) for t in lr.target_tables),
                        "i": sorted(short(t) for t in lr.intermediate_tables), "x": "none"}
            except Exception as e:  # noqa
                return {"e": [], "s": [], "t": [], "i": [], "x": type(e).__name__}
        obs = []
        for k in range(1, len(sqls) + 1):
            text = ";\n".join(sqls[:k])
            if mech == "scoped":
                with SQLLineageConfig(DEFAULT_SCHEMA=S):
                    obs.append(summary(text))
            else:
                obs.append(summary(text))
        out.append({"obs": obs, "text": ";\n".join(sqls), "dialect": dia})
    return out


def script_part(chk, quick, rnd):
    """scripts (Script.tla histories of 3-4 statements) under a default schema: each mechanism's result for every prefix must be
    a result the statement fold's ideal relation accepts for the same history over bare names"""
    import multiprocessing as mp
    import os
    from . import c03
    cfg = tlc.write_cfg(os.path.join(chk.work, "ds_script.cfg"),
                        constants=dict(TableSeq="<- TS4", MaxLen=6, MaxPairs=2, Known=set(), Emit=True, ColumnLess=True), invariants=["EmitCase"])
    r = chk.tlc("MC_Script", cfg, "generate: simulated histories for the script-level part", workers=1, coverage=False,
                simulate="num=%d" % (600 if quick else 8000), depth=7, seed=chk.seed + 5)
    seen, hs = set(), []
    for c in r.cases("CASE"):
        k = str(c["h"])
        if len(c["h"]) >= 3 and k not in seen:
            seen.add(k)
            hs.append(c)
    rnd.shuffle(hs)
    hs = hs[:250 if quick else 4000]
    S = "dflt_x"
    jobs = [{"h": c["h"], "S": S, "mech": m} for c in hs for m in ("scoped", "qualified", "none")]
    pool = mp.Pool(16, initializer=stmt_variants._init, initargs=({},))
    try:
        res = [x for part in pool.map(_script_chunk, c03.chunks(jobs, 64)) for x in part]
    finally:
        pool.terminate()
    ejobs = [{"h": c["h"], "S": S, "mech": "env"} for c in hs]
    pool = mp.Pool(16, initializer=stmt_variants._init, initargs=({"SQLLINEAGE_DEFAULT_SCHEMA": S},))
    try:
        res += [x for part in pool.map(_script_chunk, c03.chunks(ejobs, 64)) for x in part]
    finally:
        pool.terminate()
    jobs += ejobs
    traces = [c03.to_trace({"h": j["h"]}, o["obs"]) for j, o in zip(jobs, res)]
    tcfg = os.path.join(tlc.SPEC, "Trace_Script.cfg")
    v = core.validate_traces(chk, "Trace_Script", tcfg, traces, "dsscript")
    verdicts = []
    for i, (j, o) in enumerate(zip(jobs, res)):
        verdict = v[i + 1][1]
        verdicts.append(verdict if verdict == "ok" else verdict.split(":")[0])
        chk.count(["script", j["h"], j["mech"]], nontrivial=j["mech"] != "none")
        if verdict != "ok":
            chk.reject({"module": "Script", "clause": verdict.split(":")[0], "mechanism": j["mech"], "n_statements": len(j["h"])},
                       {"sql": o["text"], "dialect": o["dialect"], "mechanism": j["mech"], "default_schema": S if j["mech"] != "none" else None,
                        "observed_per_prefix": o["obs"], "verdict": verdict,
                        "how": "every prefix of the script through LineageRunner under the mechanism; names under the default written back to bare names; Trace_Script decides"})
    chk.cov["script_level_verdicts"] = {k: verdicts.count(k) for k in sorted(set(verdicts))}


def run(chk):
    quick = chk.tier == "quick"
    rnd = random.Random(chk.seed)
    r = chk.tlc("Stmt", c01.cfg(chk, "mc", 6 if quick else 7, defschemas=("none", "s", "dflt_x")),
                "O1 with default schema unset / fresh / already used as qualifier", workers=16, timeout=6000)
    if r.violated:
        raise core.MachineryError("Stmt.tla intended mechanism violates %s" % r.violated)
    g = chk.tlc("Stmt", c01.cfg(chk, "gen", 6, known=c01.ALL_DEV, emit=True), "generate: insert/query bodies", workers=1, coverage=False, timeout=6000)
    cases = g.cases("CASE")
    gk = chk.tlc("Stmt", c01.cfg(chk, "genk", 5, kinds=("ctas", "view", "update", "merge", "delete"), known=c01.ALL_DEV, emit=True, tbl=("a",), ctes=("x",)),
                 "generate: other statement kinds", workers=1, coverage=False, timeout=6000)
    kinds = gk.cases("CASE")
    rnd.shuffle(cases)
    rnd.shuffle(kinds)
    cases = cases[:500 if quick else 5000] + kinds[:150 if quick else 700]
    all_c, all_o, all_m = [], [], []
    for S in S_VALUES:
        # (ii) scoped override, (iii) textual qualification without default - same worker pool, environment clean
        jobs, owner = [], []
        for c in cases:
            jobs.append({"prog": c["prog"], "mech": "scoped", "ds": S, "ds_expect": S})
            owner.append(c)
            jobs.append({"prog": c["prog"], "mech": "qualified", "opts": {"qualify": S}, "ds_expect": S})
            owner.append(c)
        # (iv) the web application's /lineage answer while the scope is open: INSERT programs only (their table graph is
        # sources -> target, so the export projects onto reads and target)
        for c in [c for c in cases if c["prog"][0]["a"] == "insert" and c["reads"]][:60 if quick else 600]:
            jobs.append({"prog": c["prog"], "mech": "served_scoped", "ds": S, "ds_expect": S})
            owner.append(c)
        obs = stmt_variants.run(jobs)
        # (i) environment variable, set before the library is imported by the worker processes
        jobs_e = [{"prog": c["prog"], "mech": "env", "ds_expect": S} for c in cases]
        obs_e = stmt_variants.run(jobs_e, env={"SQLLINEAGE_DEFAULT_SCHEMA": S})
        for c, o in list(zip(owner, obs)) + list(zip(cases, obs_e)):
            if "skip" in o:
                continue
            all_c.append(c)
            all_o.append(o)
    # no default at all: the placeholder schema, uniformly
    obs_n = stmt_variants.run([{"prog": c["prog"], "mech": "none"} for c in cases])
    for c, o in zip(cases, obs_n):
        all_c.append(c)
        all_o.append(o)
    column_part(chk, quick, rnd)
    script_part(chk, quick, rnd)
    verdicts = c01.decide(chk, all_c, all_o, "ds")
    for c, o in zip(all_c, all_o):
        chk.count([c["prog"], o["mech"], o["ds"]], nontrivial=o["mech"] != "none")
    chk.cov["verdicts"] = {k: verdicts.count(k) for k in sorted(set(verdicts))}
    by = {}
    for o, v in zip(all_o, verdicts):
        by.setdefault(o["mech"] + ":" + o["ds"], {}).setdefault(v if v in ("ok", "known") else "rejected", 0)
        by[o["mech"] + ":" + o["ds"]][v if v in ("ok", "known") else "rejected"] += 1
    chk.cov["per_mechanism"] = by
    k = 3
    chk.sample({"sql": all_o[k]["sql"], "mechanism": all_o[k]["mech"], "default_schema": all_o[k]["ds"], "observed": all_o[k]["reads"], "verdict": verdicts[k]})
    chk.cov["rule"] = ("cases = (program, default schema, mechanism): %d programs printed by TLC from Stmt.tla x S in {fresh name, a name the "
                       "program also uses as qualifier} x {scoped override, environment variable set before import (own worker pool), textual "
                       "qualification with no default} + no default at all; every observation decided by Trace_Stmt with ds = S. "
                       "non-trivial = a default schema is in force." % len(cases))
    chk.assumptions += ["script level: Script.tla histories of 3-4 statements under the same mechanisms, every prefix decided by Trace_Script (the ideal relation of the statement fold over bare names)",
                        "column owners under a default schema: Col.tla programs (one item, incl. the unknown-qualifier fallback) under the same three mechanisms, names under the fresh default written back to the placeholder before Trace_Col decides"]
