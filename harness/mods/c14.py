"""C14 - a default schema equals explicit qualification.  Spec: Stmt.tla (variable ds, Tbl fallback chain,
DefaultEqualsQualified) + Config.tla for where the value comes from."""
import random

from .. import core, stmt_variants, tlc
from . import c01

S_VALUES = ["dflt_x", "s"]      # a fresh name; a name the programs also use as an explicit qualifier


def column_part(chk, quick, rnd):
    """column owners under a default schema: Col.tla programs (incl. a qualifier that names nothing in scope and falls back to
    a table of that name) analysed under the scoped override, the environment variable and as qualified text"""
    from . import c02
    S = "dflt_x"
    g = chk.tlc("Col", c02.cfg(chk, "colgen", Emit=True, Schemas={"none", "s"}, TAliases={"x"}, SAliases={"u"}, Kinds={"insert"}, MaxItems=1, WithForeign=True),
                "generate: column-level programs with a foreign qualifier", workers=1, coverage=False, timeout=6000)
    cases = g.cases("CASE")
    rnd.shuffle(cases)
    cases = cases[:700 if quick else 6000]
    jobs = []
    for c in cases:
        jobs.append({"prog": c["prog"], "flow": c["flow"], "metadata": False, "ds": S, "mech": "scoped", "opts": {}})
        if not any(r["r"] == 9 for it in c["prog"]["items"] for r in it["refs"]):
            # (a schema-qualified column qualifier is not something the core grammar writes: the fallback is exercised by the
            # two configuration mechanisms only)
            jobs.append({"prog": c["prog"], "flow": c["flow"], "metadata": False, "ds": S, "mech": "qualified", "opts": {"qualify": S}})
    obs = c02.run_jobs(jobs)
    import multiprocessing as mp
    pool = mp.Pool(16, initializer=stmt_variants._init, initargs=({"SQLLINEAGE_DEFAULT_SCHEMA": S},))
    try:
        ejobs = [{"prog": c["prog"], "flow": c["flow"], "metadata": False, "ds": S, "mech": "env", "opts": {}} for c in cases]
        eres = pool.map(c02._run_chunk, c02.chunks(ejobs, 96))
    finally:
        pool.terminate()
    jobs += ejobs
    obs += [x for part in eres for x in part]
    verdicts, keep = c02.decide(chk, jobs, obs, "colds")
    for (j, o), v in zip(keep, verdicts):
        chk.count(["col", j["prog"], j["mech"]], nontrivial=True)
    chk.cov["column_level_verdicts"] = {k: verdicts.count(k) for k in sorted(set(verdicts))}


def run(chk):
    quick = chk.tier == "quick"
    rnd = random.Random(chk.seed)
    r = chk.tlc("Stmt", c01.cfg(chk, "mc", 6 if quick else 7, defschemas=("none", "s", "dflt_x")),
                "O1 with default schema unset / fresh / already used as qualifier", workers=16, timeout=6000)
    if r.violated:
        raise core.MachineryError("Stmt.tla intended mechanism violates %s" % r.violated)
    g = chk.tlc("Stmt", c01.cfg(chk, "gen", 6, known=c01.ALL_DEV, emit=True), "generate: insert/query bodies", workers=1, coverage=False, timeout=6000)
    cases = g.cases("CASE")
    gk = chk.tlc("Stmt", c01.cfg(chk, "genk", 5, kinds=("ctas", "view", "update", "merge", "delete"), known=c01.ALL_DEV, emit=True, tbl=("a",), ctes=("x",)),
                 "generate: other statement kinds", workers=1, coverage=False, timeout=6000)
    kinds = gk.cases("CASE")
    rnd.shuffle(cases)
    rnd.shuffle(kinds)
    cases = cases[:500 if quick else 5000] + kinds[:150 if quick else 700]
    all_c, all_o, all_m = [], [], []
    for S in S_VALUES:
        # (ii) scoped override, (iii) textual qualification without default - same worker pool, environment clean
        jobs, owner = [], []
        for c in cases:
            jobs.append({"prog": c["prog"], "mech": "scoped", "ds": S, "ds_expect": S})
            owner.append(c)
            jobs.append({"prog": c["prog"], "mech": "qualified", "opts": {"qualify": S}, "ds_expect": S})
            owner.append(c)
        obs = stmt_variants.run(jobs)
        # (i) environment variable, set before the library is imported by the worker processes
        jobs_e = [{"prog": c["prog"], "mech": "env", "ds_expect": S} for c in cases]
        obs_e = stmt_variants.run(jobs_e, env={"SQLLINEAGE_DEFAULT_SCHEMA": S})
        for c, o in list(zip(owner, obs)) + list(zip(cases, obs_e)):
            if "skip" in o:
                continue
            all_c.append(c)
            all_o.append(o)
    # no default at all: the placeholder schema, uniformly
    obs_n = stmt_variants.run([{"prog": c["prog"], "mech": "none"} for c in cases])
    for c, o in zip(cases, obs_n):
        all_c.append(c)
        all_o.append(o)
    column_part(chk, quick, rnd)
    verdicts = c01.decide(chk, all_c, all_o, "ds")
    for c, o in zip(all_c, all_o):
        chk.count([c["prog"], o["mech"], o["ds"]], nontrivial=o["mech"] != "none")
    chk.cov["verdicts"] = {k: verdicts.count(k) for k in sorted(set(verdicts))}
    by = {}
    for o, v in zip(all_o, verdicts):
        by.setdefault(o["mech"] + ":" + o["ds"], {}).setdefault(v if v in ("ok", "known") else "rejected", 0)
        by[o["mech"] + ":" + o["ds"]][v if v in ("ok", "known") else "rejected"] += 1
    chk.cov["per_mechanism"] = by
    k = 3
    chk.sample({"sql": all_o[k]["sql"], "mechanism": all_o[k]["mech"], "default_schema": all_o[k]["ds"], "observed": all_o[k]["reads"], "verdict": verdicts[k]})
    chk.cov["rule"] = ("cases = (program, default schema, mechanism): %d programs printed by TLC from Stmt.tla x S in {fresh name, a name the "
                       "program also uses as qualifier} x {scoped override, environment variable set before import (own worker pool), textual "
                       "qualification with no default} + no default at all; every observation decided by Trace_Stmt with ds = S. "
                       "non-trivial = a default schema is in force." % len(cases))
    chk.assumptions += ["column owners under a default schema: Col.tla programs (one item, incl. the unknown-qualifier fallback) under the same three mechanisms, names under the fresh default written back to the placeholder before Trace_Col decides"]
