"""C01 - single-statement table lineage is exact.  Spec: Stmt.tla / Trace_Stmt.tla."""
import copy
import multiprocessing as mp
import os
import random

from .. import core, tlc

# deviations the current tree still has (the machine's deviant track); the others are kept in the spec as expected-fail self-tests
ALL_DEV = ["D_CTE_VISIBLE_IN_OWN_BODY"]
SPEC_DEV = ["D_COMMA_JOIN_DROPS_JOINED", "D_SCALAR_SUBQUERY_BLIND", "D_HAVING_SUBQUERY_BLIND", "D_CTE_VISIBLE_IN_OWN_BODY"]
SPEC_DEV2 = ["D_ON_SUBQUERY_BLIND", "D_NESTED_SET_OPERATION_BLIND", "D_SELFREF_AS_TABLE"]      # need the clauses of NEST_CLAUSES to fire
ALL_CLAUSES = {"where", "isub", "having", "union"}
PAREN_CLAUSES = {"where", "union", "paren"}
NEST_CLAUSES = {"union", "on", "ubranch", "where", "where2"}
REC_CLAUSES = {"union", "selfref"}
EVERY_CLAUSE = {"where", "isub", "having", "union", "paren", "on", "ubranch", "where2", "selfref"}
INVS = ["MachineTablesExact", "LocalsNeverReported", "NoopReportsNothing", "DeviationsAccountedFor", "DefaultEqualsQualified", "EmitCase"]


def cfg(chk, name, maxev, kinds=("insert", "query"), known=(), emit=False, maxdepth=2, maxrel=3, maxcte=1, clauses=ALL_CLAUSES,
        invariants=INVS, tbl=("a", "b"), ctes=("a", "x"), schemas=("none", "s"), defschemas=("none",)):
    return tlc.write_cfg(os.path.join(chk.work, name + ".cfg"),
                         constants=dict(MaxEv=maxev, MaxDepth=maxdepth, MaxRel=maxrel, MaxCte=maxcte, TblNames=set(tbl), CteNames=set(ctes),
                                        Schemas=set(schemas), Kinds=set(kinds), Known=set(known), Emit=emit, Clauses=set(clauses), DefSchemas=set(defschemas)),
                         invariants=list(invariants))


def _run_chunk(args):
    cases, dialects = args
    os.chdir("/tmp")
    from .. import render_stmt as R
    from .. import stmt_drv as d
    out = []
    for c in cases:
        sql = R.render(c["prog"], R.Opts(alias_scope=c.get("alias_scope", "global"), isub_form=c.get("isub_form", "plain"),
                                         merge_direct=c.get("merge_direct", False), sub_with=c.get("sub_with", False), where_op=c.get("where_op", "in"),
                                         cond_with=c.get("cond_with", False), recursive_kw=c.get("recursive_kw", True)))
        for dia in ([c["dialect"]] if c.get("dialect") else dialects):
            if dia != "ansi" and not d.accepts(sql, dia):
                out.append(None)
                continue
            o = d.tables(sql, dia)
            if o["exc"] == "InvalidSyntaxException" and not d.accepts(sql, dia):
                out.append(None)      # the parser itself rejects the text (deeply nested parenthesised joins): outside the quantifier
                continue
            o["sql"] = sql
            o["dialect"] = dia
            out.append(o)
    return out


def chunks(xs, n):
    k = max(1, (len(xs) + n - 1) // n)
    return [xs[i:i + k] for i in range(0, len(xs), k)]


def generate(chk, quick, seed):
    cases = []
    r = chk.tlc("Stmt", cfg(chk, "gen", 6 if quick else 7, known=ALL_DEV, emit=True), "generate: every program (insert/query bodies)",
                workers=1, coverage=False, timeout=5000)
    cases += r.cases("CASE")
    r = chk.tlc("Stmt", cfg(chk, "genk", 5, kinds=("insert", "ctas", "view", "update", "merge", "query", "delete"), known=ALL_DEV, emit=True,
                            tbl=("a",), ctes=("x",)),
                "generate: every statement kind over small bodies", workers=1, coverage=False, timeout=5000)
    cases += [c for c in r.cases("CASE") if c["prog"][0]["a"] not in ("insert", "query")]
    r = chk.tlc("Stmt", cfg(chk, "genp", 7 if quick else 8, kinds=("insert",), known=ALL_DEV, emit=True, clauses=PAREN_CLAUSES, tbl=("a", "b"), ctes=("x",),
                            schemas=("none",)),
                "generate: parenthesised joins", workers=1, coverage=False, timeout=5000)
    cases += [c for c in r.cases("CASE") if any(e["e"] == "paren" for e in c["prog"])]
    r = chk.tlc("Stmt", cfg(chk, "genn", 8 if quick else 9, kinds=("insert",), known=ALL_DEV, emit=True, clauses=NEST_CLAUSES, tbl=("a", "b"), ctes=("x",),
                            schemas=("none",), maxcte=0),
                "generate: subqueries in ON conditions, nested set operations", workers=1, coverage=False, timeout=5000)
    cases += [c for c in r.cases("CASE") if any(e["e"] in ("on", "ubranch") for e in c["prog"]) or sum(1 for e in c["prog"] if e["e"] == "where") >= 2]
    r = chk.tlc("Stmt", cfg(chk, "genw", 8, kinds=("update", "merge", "delete"), known=ALL_DEV, emit=True, clauses={"where"}, tbl=("a",), ctes=("a",),
                            maxrel=2),
                "generate: WITH in front of UPDATE / MERGE / DELETE (the CTE named like a table)", workers=1, coverage=False, timeout=5000)
    wc = [c for c in r.cases("CASE") if any(e["e"] == "cte" for e in c["prog"])]
    cases += wc
    # MERGE whose source query is one table or CTE: also written with the source named directly
    cases += [dict(c, merge_direct=True) for c in wc if c["prog"][0]["a"] == "merge"]
    r = chk.tlc("Stmt", cfg(chk, "genw2", 10, kinds=("insert",), known=ALL_DEV, emit=True, clauses={"where", "where2"}, tbl=("a", "b"), ctes=("x",),
                            schemas=("none",), maxcte=0, maxrel=1, maxdepth=1),
                "generate: subqueries on both sides of a comparison in WHERE", workers=1, coverage=False, timeout=5000)
    cases += [c for c in r.cases("CASE") if sum(1 for e in c["prog"] if e["e"] == "where") >= 2]
    r = chk.tlc("Stmt", cfg(chk, "genr", 9, kinds=("insert", "query"), known=ALL_DEV, emit=True, clauses={"union", "selfref", "where"}, tbl=("a", "b"), ctes=("a", "x"),
                            schemas=("none",), maxrel=2, maxdepth=1),
                "generate: recursive CTEs (the second branch of the body reads the CTE itself)", workers=1, coverage=False, timeout=5000)
    rec = [c for c in r.cases("CASE") if any(e["e"] == "selfref" for e in c["prog"])]
    if quick:
        random.Random(seed + 5).shuffle(rec)
        rec = rec[:500]
    # with the keyword under ansi; without it under the dialects that have none
    cases += rec + [dict(c, recursive_kw=False, dialect=d) for i, c in enumerate(rec) for d in (["tsql", "oracle", "db2"][i % 3],)]
    # derived tables in the branches of a set operation (every branch a scope of its own: with aliases restarting per scope the
    # branches re-use each other's aliases)
    r = chk.tlc("Stmt", cfg(chk, "genu", 11, kinds=("insert",), known=ALL_DEV, emit=True, clauses={"union", "ubranch"}, tbl=("a", "b"), ctes=("x",),
                            schemas=("none",), maxcte=0, maxrel=1, maxdepth=2),
                "generate: derived tables in the branches of a set operation", workers=1, coverage=False, timeout=5000)
    ub = [c for c in r.cases("CASE") if sum(1 for e in c["prog"] if e["e"] == "sub") >= 2 and any(e["e"] in ("union", "ubranch") for e in c["prog"])]
    cases += [dict(c, alias_scope="local") for c in ub] + ub
    n_exh = len(cases)
    r = chk.tlc("Stmt", cfg(chk, "gensim", 16, known=ALL_DEV, emit=True, maxdepth=4, maxrel=3, maxcte=2, invariants=["EmitCase"], clauses=EVERY_CLAUSE),
                "generate: simulated deeper programs (depth 4)", workers=1, coverage=False,
                simulate="num=%d" % (4000 if quick else 60000), depth=18, seed=seed, timeout=5000)
    sims = r.cases("CASE")
    seen = set()
    for c in sims:
        k = str(c["prog"])
        if k not in seen and len(c["prog"]) > (6 if quick else 7):
            seen.add(k)
            cases.append(c)
    return cases, n_exh


def prog_features(prog):
    """structural features of a program, used only to IDENTIFY feature-scoped known findings"""
    f = set()
    depth_joined = {}
    stack = [False]
    roles = []
    for e in prog:
        k = e["e"]
        if k in ("on", "ubranch"):
            f.add({"on": "on_subquery", "ubranch": "nested_set_operation"}[k])
        if k in ("sub", "where", "isub", "having", "cte", "main", "paren", "on", "ubranch"):
            if k == "sub" and "paren" in roles:
                f.add("derived_table_inside_parenthesised_join")
            roles.append(k)
        elif k == "end" and roles:
            roles.pop()
        if k == "paren":
            f.add("parenthesised_join")
        if k in ("tbl", "cteref", "sub"):
            if e["a"] == "inner":
                stack[-1] = True
            elif e["a"] == "comma" and stack[-1]:
                f.add("comma_after_join")
        if k in ("sub", "where", "isub", "having", "cte", "main", "on", "ubranch"):
            stack.append(False)
            if k in ("having", "isub", "where"):
                f.add(k + "_subquery")
        if k == "cte" and prog[0]["a"] in ("update", "merge", "delete"):
            f.add("with_in_front_of_" + prog[0]["a"])
        if k == "union":
            stack[-1] = False
            f.add("union")
        if k == "end" and len(stack) > 1:
            stack.pop()
    return sorted(f) or ["none"]


def decide(chk, cases, obs, label):
    """all observations go through Trace_Stmt; returns verdict list"""
    traces = [{"prog": c["prog"], "reads": o["reads"], "target": o["target"], "exc": o["exc"], "ds": o.get("ds", "none")} for c, o in zip(cases, obs)]
    tcfg = os.path.join(tlc.SPEC, "Trace_Stmt.cfg")
    verdicts = {}
    B = 6000
    for off in range(0, len(traces), B):
        v = core.validate_traces(chk, "Trace_Stmt", tcfg, traces[off:off + B], "%s%d" % (label, off), workers=1)
        for k, val in v.items():
            verdicts[off + k - 1] = val
    out = []
    for i in range(len(traces)):
        verdict = verdicts[i][1]
        c, o = cases[i], obs[i]
        if verdict == "ok":
            out.append("ok")
            continue
        replay = {"sql": o["sql"], "dialect": o["dialect"], "program": c["prog"], "ideal_reads": sorted(c["reads"]), "ideal_target": sorted(c["target"]),
                  "observed": {k: o[k] for k in ("reads", "target", "exc")}, "verdict": verdict,
                  "how": "harness.render_stmt.render(program) -> LineageRunner(sql, dialect).source_tables/target_tables"}
        if verdict.startswith("known:"):
            devs = verdict[len("known:"):].split("+")
            if all(chk.known_deviation(dv, replay) for dv in devs):
                out.append("known")
                continue
            verdict = "deviation_not_listed:" + verdict
        feats = prog_features(c["prog"])
        if " and ( c1 in ( " in o["sql"].lower().replace('"', ""):
            feats = sorted(set(feats) | {"written:where_subquery_inside_a_bracketed_part_of_the_condition"})
        chk.reject({"module": "Stmt", "clause": verdict.split(":")[0], "dialect": o["dialect"], "exception": o["exc"],
                    "kind": c["prog"][0]["a"], "features": feats}, replay)
        out.append(verdict)
    return out


def run(chk):
    quick = chk.tier == "quick"
    r = chk.tlc("Stmt", cfg(chk, "mc", 7 if quick else 9), "O1 every program, intended mechanism", workers=16, timeout=6000)
    if r.violated:
        raise core.MachineryError("Stmt.tla intended mechanism violates %s" % r.violated)
    chk.require_actions(["Start", "CteOpen", "Main", "FromName", "FromSub", "WhereSub", "ItemSub", "HavingSub", "Union", "End"])
    r = chk.tlc("Stmt", cfg(chk, "mck", 6, kinds=("insert", "ctas", "view", "update", "merge", "query", "delete", "select_into"), tbl=("a",), ctes=("x",)),
                "O1 every statement kind", workers=16, timeout=6000)
    if r.violated:
        raise core.MachineryError("Stmt.tla intended mechanism violates %s" % r.violated)
    r = chk.tlc("Stmt", cfg(chk, "mcp", 7 if quick else 8, clauses=PAREN_CLAUSES, kinds=("insert",), schemas=("none",)), "O1 with parenthesised joins", workers=16, timeout=6000)
    if r.violated:
        raise core.MachineryError("Stmt.tla intended mechanism violates %s" % r.violated)
    r = chk.tlc("Stmt", cfg(chk, "mcn", 8 if quick else 9, clauses=NEST_CLAUSES, kinds=("insert",), schemas=("none",), maxcte=0),
                "O1 with subqueries in ON conditions and nested set operations", workers=16, timeout=6000)
    if r.violated:
        raise core.MachineryError("Stmt.tla intended mechanism violates %s" % r.violated)
    chk.require_actions(["OnSub", "NestedBranch"])
    r = chk.tlc("Stmt", cfg(chk, "mcr", 9, clauses={"union", "selfref", "where"}, kinds=("insert", "query"), schemas=("none",), maxrel=2, maxdepth=1),
                "O1 with recursive CTEs", workers=16, timeout=6000)
    if r.violated:
        raise core.MachineryError("Stmt.tla intended mechanism violates %s" % r.violated)
    chk.require_actions(["FromSelf"])
    for dev in SPEC_DEV + SPEC_DEV2:
        r = chk.tlc("Stmt", cfg(chk, "dev_" + dev, 9 if dev == "D_SELFREF_AS_TABLE" else 7 if dev in SPEC_DEV2 else 6, known=[dev], invariants=["DeviantTablesExact"],
                                clauses=REC_CLAUSES if dev == "D_SELFREF_AS_TABLE" else NEST_CLAUSES if dev in SPEC_DEV2 else ALL_CLAUSES), "expected-fail " + dev, workers=8,
                    expect_violation=True, coverage=False)
        chk.self_test("spec finds " + dev, bool(r.violated), ",".join(r.violated))
    cases, n_exh = generate(chk, quick, chk.seed)
    # the same programs once more with alias numbering restarting in every query scope (aliases re-used across scopes,
    # identical text for identical sub-bodies): all programs that have more than one scope
    multi = [dict(c, alias_scope="local") for c in cases if sum(1 for e in c["prog"] if e["e"] in ("sub", "where", "isub", "having", "union", "cte")) >= 1]
    if quick:
        random.Random(chk.seed).shuffle(multi)
        multi = multi[:2500]
    # ... and the programs with a select-list subquery once more with that subquery elsewhere in the item: ELSE / THEN branch of a
    # CASE, argument of a function, argument of a function inside an expression
    rnd_ = random.Random(chk.seed + 11)
    nested = [dict(c, isub_form=rnd_.choice(["else", "then", "func", "func_in_expr", "paren2", "cond"])) for c in cases if any(e["e"] == "isub" for e in c["prog"])]
    if quick:
        rnd_.shuffle(nested)
        nested = nested[:1500]
    # ... and the programs with derived tables once more with every derived table carrying a WITH clause of its own
    subw = [dict(c, sub_with=True) for c in cases if any(e["e"] == "sub" for e in c["prog"])]
    if quick:
        rnd_.shuffle(subw)
        subw = subw[:1500]
    # ... and the programs with a WHERE subquery once more with the subquery deeper in the condition
    wops = [dict(c, where_op=rnd_.choice(["all", "nested_bool", "func", "in_with_bracket", "exists"])) for c in cases if any(e["e"] == "where" for e in c["prog"])]
    if quick:
        rnd_.shuffle(wops)
        wops = wops[:1500]
    # ... and the programs with a subquery in a condition or in the select list once more with that subquery written as a WITH query
    # whose second CTE reads the first (under the same choices of position in the condition / the select item)
    condw = [dict(c, cond_with=True, where_op=rnd_.choice(["in", "exists", "nested_bool", "all"]), isub_form=rnd_.choice(["plain", "else", "func"]))
             for c in cases if any(e["e"] in ("where", "on", "having", "isub") for e in c["prog"])]
    if quick:
        rnd_.shuffle(condw)
        condw = condw[:1200]
    cases = cases + multi + nested + subw + wops + condw
    pool = mp.Pool(16)
    try:
        res = pool.map(_run_chunk, [(c, ["ansi"]) for c in chunks(cases, 64)])
    finally:
        pool.terminate()
    obs = [x for part in res for x in part]
    chk.cov["rejected_by_the_parser"] = sum(1 for o in obs if o is None)
    cases = [c for c, o in zip(cases, obs) if o is not None]
    obs = [o for o in obs if o is not None]
    verdicts = decide(chk, cases, obs, "stmt")
    for c, v in zip(cases, verdicts):
        chk.count(c["prog"], nontrivial=len([e for e in c["prog"] if e["e"] in ("sub", "where", "isub", "having", "union", "cte", "paren", "on", "ubranch")]) > 0)
    chk.cov["verdicts"] = {k: verdicts.count(k) for k in sorted(set(verdicts))}
    i = min(len(cases) - 1, 3000)
    chk.sample({"sql": obs[i]["sql"], "ideal_reads": cases[i]["reads"], "observed": obs[i]["reads"], "verdict": verdicts[i]})
    # binding self-test: a corrupted observation must be rejected
    ok = [i for i, v in enumerate(verdicts) if v == "ok" and len(obs[i]["reads"]) >= 2]
    if ok:
        c, o = cases[ok[0]], copy.deepcopy(obs[ok[0]])
        o["reads"] = o["reads"][1:]
        o2 = copy.deepcopy(obs[ok[0]])
        o2["reads"] = o2["reads"] + ["<default>.q1"]
        tr = [{"prog": c["prog"], "reads": x["reads"], "target": x["target"], "exc": x["exc"], "ds": "none"} for x in (o, o2)]
        v = core.validate_traces(chk, "Trace_Stmt", os.path.join(tlc.SPEC, "Trace_Stmt.cfg"), tr, "selftest")
        chk.cov["traces_validated_against_impl"] -= 2
        chk.self_test("a dropped source table / a reported alias is rejected", v[1][1] == "misses_table_read" and v[2][1] == "reports_table_not_read",
                      "%s %s" % (v[1][1], v[2][1]))
    chk.cov["rule"] = ("cases = programs printed by TLC from Stmt.tla: all %d programs in the exhaustive bound (<= %d grammar events for "
                       "insert/query bodies over joins, comma joins, derived tables, CTEs, union, WHERE / select-list / HAVING subqueries; parenthesised joins; "
                       "subqueries in ON conditions and nested set operations; "
                       "every statement kind over bodies <= 5 events) plus %d simulated deeper programs (depth 4); each rendered to SQL and "
                       "analysed by the real LineageRunner under ansi; every observation decided by Trace_Stmt. non-trivial = has a nested "
                       "query, a CTE or a set operation." % (n_exh, 6 if quick else 7, len(cases) - n_exh))
    chk.cov["exhaustive"] = True
    chk.assumptions += ["one spelling per program here (aliases q1.., lower case); spelling, naming and dialects are the dimensions of C07, C08, C09",
                        "sqlfluff is trusted as parser"]
