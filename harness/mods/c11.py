"""C11 - analysis is deterministic.  Spec: Accessors.tla (any order, any number of times) + Trace_Accessors.tla; the hash-seed
matrix compares canonical dumps of the same scripts in subprocesses started with different PYTHONHASHSEED."""
from harness import REPO as _REPO
import hashlib
import json
import multiprocessing as mp
import os
import random
import subprocess
import sys

from .. import core, tlc

ACCS = ["source", "target", "intermediate", "statements", "paths", "paths_keep_subquery_end", "paths_no_subquery_cols",
        "cyto_table", "cyto_column", "str"]


def cfg(chk, name, maxcalls, known=(), emit=False, accs=ACCS):
    return tlc.write_cfg(os.path.join(chk.work, name + ".cfg"),
                         constants=dict(Accs=set(accs), MaxCalls=maxcalls, Known=set(known), Emit=emit),
                         invariants=["AccessorsIdempotentAnyOrder", "EmitCase"])


def _call(lr, a):
    from sqllineage.utils.constant import LineageLevel
    if a == "source":
        return lr.source_tables
    if a == "target":
        return lr.target_tables
    if a == "intermediate":
        return lr.intermediate_tables
    if a == "statements":
        return lr.statements()
    if a == "paths":
        return lr.get_column_lineage()
    if a == "paths_keep_subquery_end":
        return lr.get_column_lineage(exclude_path_ending_in_subquery=False)
    if a == "paths_no_subquery_cols":
        return lr.get_column_lineage(exclude_subquery_columns=True)
    if a == "cyto_table":
        return lr.to_cytoscape()
    if a == "cyto_column":
        return lr.to_cytoscape(LineageLevel.COLUMN)
    if a == "str":
        return str(lr)
    raise ValueError(a)


def _digest(x):
    import re
    s = json.dumps(x, default=str, sort_keys=True)
    s = re.sub(r"subquery_-?\d+", "subquery_N", s)
    return hashlib.sha1(s.encode()).hexdigest()[:12]


def _acc_chunk(args):
    cases, scripts = args
    import warnings
    os.chdir("/tmp")
    warnings.simplefilter("ignore")
    if _REPO not in sys.path:
        sys.path.insert(0, _REPO)
    from sqllineage.runner import LineageRunner
    refs = {}
    out = []
    for si, (sql, dia) in enumerate(scripts):
        refs[si] = {}
        for a in ACCS:
            try:
                refs[si][a] = _digest(_call(LineageRunner(sql, dialect=dia), a))
            except Exception as e:  # noqa
                refs[si][a] = "exc:" + type(e).__name__
    for c, si in cases:
        sql, dia = scripts[si]
        lr = LineageRunner(sql, dialect=dia)
        ev = []
        for call in c["calls"]:
            try:
                ans = _call(lr, call["a"])
                d = _digest(ans)
                if call["mutate"] and isinstance(ans, list):
                    # the caller does what it likes with the object it got
                    ans.reverse()
                    if ans:
                        ans.pop()
                    ans.append("junk")
            except Exception as e:  # noqa
                d = "exc:" + type(e).__name__
            ev.append({"a": call["a"], "mutate": call["mutate"], "digest": d})
        out.append({"kind": "calls", "ev": ev, "ref": refs[si], "script": si})
    return out


def _rep_chunk(items):
    import warnings
    os.chdir("/tmp")
    warnings.simplefilter("ignore")
    if _REPO not in sys.path:
        sys.path.insert(0, _REPO)
    from harness import drive
    from sqllineage.core.metadata.dummy import DummyMetaDataProvider
    from sqllineage.runner import LineageRunner
    out = []
    for it in items:
        provider = DummyMetaDataProvider(it["metadata"])
        ev = []
        first = None
        for rep in range(4):
            if rep == 3 and first is not None and first.get("source"):
                # before the last repetition: an analysis with the same provider that creates tables the script reads and then fails
                try:
                    LineageRunner(";\n".join("create table %s as select zq1, zq2 from zsrc" % t for t in first["source"][:3] if "." in t and not t.startswith("<"))
                                  + ";\nselect from where (", dialect=it["dialect"] if it["dialect"] != "non-validating" else "ansi",
                                  metadata_provider=provider).source_tables
                except Exception:  # noqa
                    pass
            d = drive.dump(it["sql"], it["dialect"], provider=provider)
            if first is None:
                first = d
            for k in ("nodes", "col_nodes", "col_edge_recs"):
                d.pop(k, None)
            ev.append({"a": "dump", "mutate": False, "digest": hashlib.sha1(json.dumps(d, sort_keys=True, default=str).encode()).hexdigest()[:12], "seed": rep})
        out.append({"kind": "repeat", "ev": ev, "ref": {"dump": ""}, "script": -1})
    return out


SEED_DRIVER = r'''
import sys, json, os, hashlib, re
sys.path.insert(0, sys.argv[3])
os.chdir("/tmp")
from harness import drive
items = json.load(open(sys.argv[1]))
out = []
for it in items:
    d = drive.dump(it["sql"], it["dialect"], metadata=it.get("metadata"))
    for k in ("nodes", "col_nodes", "col_edge_recs"):      # graph-internal orders are not part of the public result
        d.pop(k, None)
    s = json.dumps(d, sort_keys=True, default=str)
    out.append(hashlib.sha1(s.encode()).hexdigest()[:12])
json.dump(out, open(sys.argv[2], "w"))
'''


def chunks(xs, n):
    k = max(1, (len(xs) + n - 1) // n)
    return [xs[i:i + k] for i in range(0, len(xs), k)]


def run(chk):
    quick = chk.tier == "quick"
    rnd = random.Random(chk.seed)
    # ---------------- accessor sequences
    r = chk.tlc("Accessors", cfg(chk, "mc", 3 if quick else 4), "O1 every call sequence", workers=16, timeout=3000)
    if r.violated:
        raise core.MachineryError("Accessors.tla intended mechanism violates %s" % r.violated)
    chk.require_actions(["Call"])
    for dev in ["D_RETURNS_STORED_OBJECT", "D_MEMO_SLOT_PER_FAMILY"]:
        r = chk.tlc("Accessors", cfg(chk, "dev" + dev, 3, known=[dev]), "expected-fail " + dev, workers=8, expect_violation=True, coverage=False)
        chk.self_test("spec finds " + dev, bool(r.violated), ",".join(r.violated))
    g = chk.tlc("Accessors", cfg(chk, "gen", 2 if quick else 3, emit=True), "generate: every call sequence", workers=1, coverage=False, timeout=3000)
    seqs = g.cases("CASE")
    gs = chk.tlc("Accessors", cfg(chk, "gensim", 5, emit=True), "generate: simulated longer call sequences", workers=1, coverage=False,
                 simulate="num=%d" % (150 if quick else 3000), depth=6, seed=chk.seed)
    seqs += [c for c in gs.cases("CASE") if len(c["calls"]) >= 3]
    from .. import inputs
    corpus = inputs.corpus_items()
    scripts = [("insert into t1 select a, b from (select a, b from s1) q; insert into t2 select * from t1 join s2 on t1.a = s2.a; select a from t2", "ansi"),
               ("create table m as select c1, c2 from src; insert into tgt select c1 from m union all select c1 from (select c1 from other) z; drop table x", "ansi"),
               ("with c as (select k, v from base) insert into out1 select c.k, sum(c.v) over (partition by c.k) as s from c", "ansi")]
    # target-only tables (DDL, INSERT ... VALUES), a self loop, a rename and a drop: every role set is non-empty
    scripts.append(("create table ddl_only (x int); insert into vals values (1, 2); insert into lp select * from lp; "
                    "insert into t2 select a from s1; alter table t2 rename to t3; insert into t4 select a from t3; drop table s9", "ansi"))
    # a top-level SELECT over a derived table and one over a CTE: column paths that end in a subquery column
    scripts.append(("insert into t1 select a, b from s1; select q.a, q.b from (select a, b from t1) q; with c as (select a from s2) select c.a from c", "ansi"))
    if not quick:
        multi = [c for c in corpus if ";" in c["sql"].strip().rstrip(";") and c["metadata"] is None][:4]
        scripts += [(c["sql"], c["dialect"]) for c in multi]
    jobs = [(c, si) for si in range(len(scripts)) for c in seqs]
    pool = mp.Pool(16)
    try:
        res = pool.map(_acc_chunk, [(ch, scripts) for ch in chunks(jobs, 64)])
    finally:
        pool.terminate()
    traces = [x for part in res for x in part]
    for t in traces:
        chk.count(["calls", t["script"], [[e["a"], e["mutate"]] for e in t["ev"]]], nontrivial=len(t["ev"]) >= 2)
    # ---------------- hash-seed matrix
    items = [c for c in corpus if len(c["sql"]) < 4000]
    items.append({"sql": "insert into s.t select * from s.a join s.b on s.a.i = s.b.i", "dialect": "ansi", "metadata": {"s.a": ["i", "x"], "s.b": ["i", "y"]},
                  "origin": "pinned"})
    # the order a wildcard over a join expands in decides the positions a later INSERT without column list maps to (KF-C11-5)
    items.append({"sql": "create table s.tgt as select * from s.a join s.b on a.i = b.j; insert into s.tgt select p, q, r, w from s.c",
                  "dialect": "ansi", "metadata": {"s.a": ["i", "x"], "s.b": ["j", "y"], "s.c": ["p", "q", "r", "w"]}, "origin": "pinned"})
    items.append({"sql": "create table s.tgt as select * from s.b y join (select k, l from s.q) z on 1 = 1 join s.a on 1 = 1; insert into s.tgt select p, q, r, w, v, u from s.c",
                  "dialect": "ansi", "metadata": {"s.a": ["i", "x"], "s.b": ["j", "y"], "s.c": ["p", "q", "r", "w", "v", "u"]}, "origin": "pinned"})
    # a CTE name defined again in a nested WITH (KF-C11-6)
    items.append({"sql": "with c as (select a from t1) insert into x select a from (with c as (select a from t2) select a from c) q",
                  "dialect": "ansi", "metadata": None, "origin": "pinned"})
    # a table written twice (the second time with columns it did not have), then a positional INSERT into it
    items.append({"sql": "create table s.t as select a from s.src; insert into s.t (a, b, c, d, e) select a, b, c, d, e from s.src; "
                         "insert into s.t select p, q, r, w, v from s.c",
                  "dialect": "ansi", "metadata": {"s.src": ["a", "b", "c", "d", "e"], "s.c": ["p", "q", "r", "w", "v"]}, "origin": "pinned"})
    # quoted identifiers that contain another quote character next to their own quotes (the normaliser strips quote characters one
    # kind after the other: the result must not depend on the order a set of them is walked in)
    for dia, outer, inners in [("ansi", '"', ["'", "`"]), ("mysql", "`", ['"', "'"]), ("bigquery", "`", ['"', "'"]), ("sparksql", "`", ['"', "'"])]:
        for inner in inners:
            for shape in ("%sx%s", "%sx", "x%s"):
                name = outer + (shape % ((inner, inner) if shape.count("%s") == 2 else (inner,))) + outer
                items.append({"sql": "insert into tgt select %s from %s" % (name.replace("x", "c"), name), "dialect": dia, "metadata": None, "origin": "pinned"})
                items.append({"sql": "create table %s as select a from src; insert into tgt select a from %s" % (name, name), "dialect": dia, "metadata": None, "origin": "pinned"})
    items += inputs.script_items(chk, 300 if quick else 3000, chk.seed + 2)
    if quick:
        pinned = [x for x in items if x.get("origin") == "pinned"]
        rnd.shuffle(items)
        items = pinned + [x for x in items if x.get("origin") != "pinned"][:500]
    seeds = [0, 1, 2, 3] if quick else list(range(32))
    drv = os.path.join(chk.work, "seed_driver.py")
    open(drv, "w").write(SEED_DRIVER)
    parts = chunks(items, 4 if quick else 1)
    procs = []
    for pi, part in enumerate(parts):
        inp = os.path.join(chk.work, "seed_in_%d.json" % pi)
        json.dump([{"sql": x["sql"], "dialect": x["dialect"], "metadata": x["metadata"]} for x in part], open(inp, "w"))
        for s in seeds:
            outp = os.path.join(chk.work, "seed_out_%d_%d.json" % (pi, s))
            env = dict(os.environ, PYTHONHASHSEED=str(s))
            procs.append((pi, s, outp, subprocess.Popen(["/venv/bin/python", drv, inp, outp, tlc.VERIF], env=env, stdout=subprocess.DEVNULL, stderr=subprocess.DEVNULL)))
            if len([p for p in procs if p[3].poll() is None]) >= 16:
                for p in procs:
                    if p[3].poll() is None:
                        p[3].wait()
                        break
    for p in procs:
        p[3].wait()
    by = {}
    for pi, s, outp, p in procs:
        if not os.path.exists(outp):
            raise core.MachineryError("hash-seed driver failed for seed %d" % s)
        by[(pi, s)] = json.load(open(outp))
    seed_traces, seed_items = [], []
    for pi, part in enumerate(parts):
        for k, it in enumerate(part):
            seed_traces.append({"kind": "seeds", "ev": [{"a": "dump", "mutate": False, "digest": by[(pi, s)][k], "seed": s} for s in seeds], "ref": {"dump": ""}, "script": -1})
            seed_items.append(it)
            chk.count(["seeds", it["sql"], it["dialect"]], nontrivial=True)
    chk.cov["hash_seeds"] = seeds
    # ---------------- repetition in one process with one provider object
    rep_items = [c for c in corpus if c["metadata"] and len(c["sql"]) < 4000]
    rep_items += [{"sql": "insert into s.t select * from stg.orders; create table stg.orders as select a, b from s.src; "
                          "insert into s.u select * from stg.orders", "dialect": "ansi",
                   "metadata": {"s.src": ["a", "b"]}},
                  {"sql": "create table s.m as select * from s.a; insert into s.t select * from s.m", "dialect": "ansi", "metadata": {"s.a": ["i", "x"]}},
                  {"sql": "insert into s.t select * from s.m; drop table s.m; create table s.m as select i from s.a", "dialect": "ansi",
                   "metadata": {"s.a": ["i", "x"], "s.m": ["old"]}}]
    if quick:
        rep_items = rep_items[-60:]
    pool = mp.Pool(16)
    try:
        res = pool.map(_rep_chunk, chunks(rep_items, 16))
    finally:
        pool.terminate()
    rep_traces = [x for part in res for x in part]
    for it in rep_items:
        chk.count(["repeat", it["sql"], it["dialect"]], nontrivial=True)
        seed_items.append(it)
    seed_traces += rep_traces
    allt = traces + seed_traces
    tcfg = os.path.join(tlc.SPEC, "Trace_Accessors.cfg")
    verdicts = {}
    B = 10000
    for off in range(0, len(allt), B):
        v = core.validate_traces(chk, "Trace_Accessors", tcfg, allt[off:off + B], "det%d" % off)
        for k, val in v.items():
            verdicts[off + k - 1] = val
    from .. import features
    for i, (line, verdict) in sorted(verdicts.items()):
        if verdict == "ok":
            continue
        t = allt[i]
        if t["kind"] == "calls":
            chk.reject({"module": "Accessors", "clause": verdict.split(":")[0], "accessor": verdict.split(":")[-1]},
                       {"clause": verdict, "script": scripts[t["script"]][0], "calls": t["ev"], "reference": t["ref"], "failed_at_call": line})
        else:
            it = seed_items[i - len(traces)]
            chk.reject({"module": "Accessors", "clause": verdict, "features": features.features(it["sql"], it["dialect"]) or ["none"],
                        "has_metadata": it["metadata"] is not None, "input": features.sql_id(it["sql"], it["dialect"])},
                       {"clause": verdict, "sql": it["sql"], "dialect": it["dialect"], "metadata": it["metadata"], "digests_per_seed": t["ev"]})
    chk.sample({"calls": [[e["a"], e["mutate"]] for e in traces[len(traces) // 2]["ev"]], "script": scripts[traces[len(traces) // 2]["script"]][0][:80]})
    chk.sample({"hash_seed_digests": [[e["seed"], e["digest"]] for e in seed_traces[0]["ev"]], "sql": seed_items[0]["sql"][:80]})
    # binding self-test
    t = json.loads(json.dumps(traces[len(traces) // 2]))
    t["ev"][-1]["digest"] = "corrupted"
    s2 = json.loads(json.dumps(seed_traces[0]))
    s2["ev"][-1]["digest"] = "other"
    v = core.validate_traces(chk, "Trace_Accessors", tcfg, [t, s2], "selftest")
    chk.cov["traces_validated_against_impl"] -= 2
    chk.self_test("a differing answer / a differing dump is rejected", v[1][1] != "ok" and v[2][1] != "ok", "%s %s" % (v[1][1], v[2][1]))
    chk.cov["rule"] = ("cases = (a) call sequences printed by TLC from Accessors.tla (all of length <= %d over 10 accessors x 'caller mutates the "
                       "returned object', plus simulated longer ones) replayed on a fresh real runner for each of %d scripts, every answer "
                       "compared by TLC with the single-call reference; (b) %d corpus / generated scripts dumped in subprocesses started with "
                       "PYTHONHASHSEED in %s, dumps compared by TLC; (c) scripts with metadata analysed three times in one process with one provider "
                       "object, dumps compared by TLC. non-trivial = at least two calls / any seed comparison."
                       % (2 if quick else 3, len(scripts), len(seed_traces), seeds))
    chk.assumptions += ["anonymous subquery names (hash of the query text) are canonicalised before comparison",
                        "graph-internal node orders are not part of the compared dump; everything the public accessors return is"]
