"""C03 - script summary roles follow from per-statement reads and writes.  Spec: Script.tla / Trace_Script.tla."""
import copy
import multiprocessing as mp
import os
import random

from .. import core, tlc
from ..tlc import Raw

INVS = ["MachineRefinesIdeal", "NeverCrashes", "OrderAndRepetitionIrrelevant", "SelfLoopIsSourceAndTarget", "TypeOK", "EmitCase"]


def cfg(chk, name, ts="TS3", maxlen=3, maxpairs=1, known=(), emit=False, invariants=INVS, constraints=(), cl=False):
    return tlc.write_cfg(os.path.join(chk.work, name + ".cfg"),
                         constants=dict(TableSeq="<- " + ts, MaxLen=maxlen, MaxPairs=maxpairs, Known=set(known), Emit=emit, ColumnLess=cl),
                         invariants=list(invariants), constraints=list(constraints))


_F = None


def _folder():
    global _F
    if _F is None:
        from .. import script_drv as d
        _F = d.Folder()
    return _F


def _replay_chunk(cases):
    """final summary of every history; returns indices (within chunk) that differ, with per-prefix observations"""
    from .. import script_drv as d
    f = _folder()
    diffs = []
    for i, c in enumerate(cases):
        got = f.fold(c["h"])
        if got != d.norm_summary(c["o"]):
            diffs.append((i, f.prefixes(c["h"])))
    return len(cases), diffs


def _prefix_chunk(cases):
    f = _folder()
    return [f.prefixes(c["h"]) for c in cases]


def _runner_chunk(cases):
    """scripts as text through LineageRunner; events are the facts observed on the real per-statement holders"""
    from .. import script_drv as d
    f = _folder()
    out = []
    for c in cases:
        sqls = [d.render(s, d.dialect_of(s)) for s in c["h"]]
        dialect = "mysql" if any(d.dialect_of(s) == "mysql" for s in c["h"]) else "ansi"
        if dialect == "mysql":
            sqls = [d.render(s, "mysql") for s in c["h"]]
        text = ";\n".join(sqls) + ";"
        final, stmts = d.runner_summary(text, dialect)
        events, obs, hs = [], [], []
        ok = True
        for k, (s, sql) in enumerate(zip(c["h"], sqls)):
            try:
                h = f.holder_sql(sql, dialect)
            except Exception as e:  # noqa
                ok = False
                break
            hs.append(h)
            fs = d.facts_of(h)
            if len(fs) != 1:
                ok = False
                break
            ev = fs[0]
            if ev["k"] == "ren":
                ev["pairs"] = [list(p) for p in s["pairs"]]   # statement order is known to the generator
                ev["ordered"] = True
            events.append(ev)
            obs.append(f.summary_of(hs))
        if not ok:
            out.append(None)
            continue
        prefix_last = obs[-1]
        obs[-1] = final            # the last observation is what LineageRunner itself reports for the whole script
        out.append({"h": events, "obs": obs, "text": text, "dialect": dialect, "n_statements": len(stmts),
                    "fold_equals_runner": prefix_last == final})
    return out


def chunks(xs, n):
    k = max(1, (len(xs) + n - 1) // n)
    return [xs[i:i + k] for i in range(0, len(xs), k)]


def to_trace(case, prefixes):
    return {"h": [dict(s, r=sorted(s["r"]), pairs=[list(p) for p in s["pairs"]], ordered=True) for s in case["h"]],
            "obs": prefixes}


def run(chk):
    quick = chk.tier == "quick"
    rnd = random.Random(chk.seed)
    # ---------------- O1
    r = chk.tlc("MC_Script", cfg(chk, "mc", maxlen=3 if quick else 4), "O1 all histories, single-pair renames", workers=16, timeout=3000)
    if r.violated:
        raise core.MachineryError("Script.tla intended mechanism violates %s" % r.violated)
    chk.require_actions(["Fold"])
    r = chk.tlc("MC_Script", cfg(chk, "mc3", maxlen=2 if quick else 3, cl=True), "O1 with column-less statements", workers=16, timeout=3000)
    if r.violated:
        raise core.MachineryError("Script.tla intended mechanism violates %s" % r.violated)
    r = chk.tlc("MC_Script", cfg(chk, "mc2", maxlen=2 if quick else 3, maxpairs=2), "O1 two-pair renames", workers=16, timeout=3000)
    if r.violated:
        raise core.MachineryError("Script.tla intended mechanism violates %s" % r.violated)
    r = chk.tlc("MC_Script", cfg(chk, "dev", maxlen=2, maxpairs=2, known=["D_RENAME_SET_ORDER"]), "expected-fail D_RENAME_SET_ORDER",
                workers=8, expect_violation=True, coverage=False)
    chk.self_test("spec finds D_RENAME_SET_ORDER", bool(r.violated), ",".join(r.violated))

    # ---------------- spec -> code: every history TLC enumerates, folded by the real SQLLineageHolder.of
    gens = []
    r = chk.tlc("MC_Script", cfg(chk, "gen", maxlen=3, emit=True), "generate: all histories <= 3", workers=1, coverage=False, timeout=3000)
    gens += r.cases("CASE")
    r = chk.tlc("MC_Script", cfg(chk, "gen2", maxlen=2 if quick else 3, maxpairs=2, emit=True), "generate: two-pair renames", workers=1,
                coverage=False, timeout=3000)
    for c in r.cases("CASE"):
        if any(len(s["pairs"]) > 1 for s in c["h"]):
            gens.append(c)
    r = chk.tlc("MC_Script", cfg(chk, "gen3", maxlen=2 if quick else 3, cl=True, emit=True), "generate: with column-less statements", workers=1,
                coverage=False, timeout=3000)
    for c in r.cases("CASE"):
        if any(s["cl"] for s in c["h"]):
            gens.append(c)
    n_exh = len(gens)
    sim = chk.tlc("MC_Script", cfg(chk, "gensim", ts="TS5", maxlen=9, emit=True, cl=True, invariants=["MachineRefinesIdeal", "EmitCase"]),
                  "generate: simulated longer histories over 5 tables", workers=1, coverage=False,
                  simulate="num=%d" % (400 if quick else 8000), depth=10, seed=chk.seed, timeout=3000)
    longs = [c for c in sim.cases("CASE") if len(c["h"]) >= 5]
    rnd.shuffle(longs)
    longs = longs[:1500 if quick else 30000]
    pool = mp.Pool(16)
    try:
        parts = chunks(gens + longs, 64)
        res = pool.map(_replay_chunk, parts)
        diffs = []
        off = 0
        allc = gens + longs
        for part, (n, ds) in zip(parts, res):
            for i, prefixes in ds:
                diffs.append((off + i, prefixes))
            off += n
        # a sample of conforming histories goes through trace validation too
        idx = list(range(len(allc)))
        rnd.shuffle(idx)
        samp = idx[:4000 if quick else 40000]
        sp = pool.map(_prefix_chunk, chunks([allc[i] for i in samp], 32))
        sample_traces = [to_trace(allc[i], p) for i, p in zip(samp, [x for part in sp for x in part])]
        # ---------------- code -> spec: scripts as text through LineageRunner
        rr = pool.map(_runner_chunk, chunks(longs[:600 if quick else 10000] + [c for c in gens if len(c["h"]) == 3][::97 if quick else 7], 32))
        runner_traces = [x for part in rr for x in part if x is not None]
    finally:
        pool.terminate()
    for c in allc:
        chk.count(c["h"], nontrivial=len(c["h"]) >= 2 and any(s["k"] != "rw" for s in c["h"]))
    chk.sample({"history": [__import__("harness.script_drv", fromlist=["render"]).render(s) for s in gens[min(len(gens) - 1, 40000)]["h"]],
                "expected": gens[min(len(gens) - 1, 40000)]["o"]})
    if runner_traces:
        chk.sample({"script": runner_traces[0]["text"], "events": runner_traces[0]["h"][:3], "final": runner_traces[0]["obs"][-1]})
    traces = [to_trace(allc[i], p) for i, p in diffs] + sample_traces + runner_traces
    kinds = ["diff"] * len(diffs) + ["sample"] * len(sample_traces) + ["runner"] * len(runner_traces)
    tcfg = os.path.join(tlc.SPEC, "Trace_Script.cfg")
    verdicts = {}
    B = 8000
    for off in range(0, len(traces), B):
        v = core.validate_traces(chk, "Trace_Script", tcfg, [{"h": t["h"], "obs": t["obs"]} for t in traces[off:off + B]], "script%d" % off)
        for k, val in v.items():
            verdicts[off + k - 1] = val
    for i, (line, verdict) in sorted(verdicts.items()):
        if verdict == "ok":
            if kinds[i] == "diff":
                chk.drift()
            continue
        t = traces[i]
        ev = t["h"][line - 1]
        chk.reject({"module": "Script", "clause": verdict, "stmt": ev["k"], "pairs": len(ev["pairs"]),
                    "exception": t["obs"][line - 1]["x"]},
                   {"clause": verdict, "failed_at_statement": line, "events": t["h"], "observed": t["obs"], "text": t.get("text"),
                    "how": "harness.script_drv.Folder (real analyzer + SQLLineageHolder.of per prefix)"})
    # any observed exception is C10/C11's matter, but a fold that raises is reported here as well (it yields no roles)
    exc = [t for t in traces if any(o["x"] != "none" for o in t["obs"])]
    for t in exc[:20]:
        k = [o["x"] for o in t["obs"] if o["x"] != "none"][0]
        chk.reject({"module": "Script", "clause": "fold_raises", "exception": k,
                    "pairs": max([len(e["pairs"]) for e in t["h"]] + [0])},
                   {"clause": "fold_raises", "events": t["h"], "observed": t["obs"]})
    for t in runner_traces:
        if not t["fold_equals_runner"]:
            chk.cov.setdefault("runner_differs_from_prefix_fold", 0)
            chk.cov["runner_differs_from_prefix_fold"] += 1

    # ---------------- binding self-tests
    okt = [traces[i] for i, v in verdicts.items() if v[1] == "ok" and traces[i]["obs"][-1]["e"]]
    if okt:
        t = copy.deepcopy({"h": okt[0]["h"], "obs": okt[0]["obs"]})
        t["obs"][-1]["e"] = t["obs"][-1]["e"][1:]
        t2 = copy.deepcopy({"h": okt[-1]["h"], "obs": okt[-1]["obs"]})
        t2["obs"][-1]["s"], t2["obs"][-1]["t"] = t2["obs"][-1]["t"], t2["obs"][-1]["s"]
        v = core.validate_traces(chk, "Trace_Script", tcfg, [t, t2], "selftest_corrupt")
        chk.cov["traces_validated_against_impl"] -= 2
        chk.self_test("summary with an edge removed / roles swapped is rejected", v[1][1] != "ok" or v[2][1] != "ok", "%s %s" % (v[1][1], v[2][1]))
    # a fold that skips the last statement: shift observations by one
    stub = []
    for t in okt[:300]:
        if len(t["h"]) >= 2:
            s = copy.deepcopy({"h": t["h"], "obs": t["obs"]})
            s["obs"][-1] = s["obs"][-2]
            stub.append(s)
    if stub:
        v = core.validate_traces(chk, "Trace_Script", tcfg, stub, "selftest_skiplast")
        chk.cov["traces_validated_against_impl"] -= len(stub)
        bad = [x for x in v.values() if x[1] != "ok"]
        chk.self_test("a fold that skips the last statement is rejected", len(bad) > 0, "%d of %d" % (len(bad), len(stub)))
    chk.cov["rule"] = ("cases = histories of abstract statements printed by TLC from Script.tla: all %d histories of <= 3 statements over 3 tables "
                       "(31 read/write shapes + DROP + RENAME, plus two-pair RENAMEs) and %d simulated histories of 5-9 statements over 5 tables; "
                       "each rendered to SQL, analysed by the real analyzer and folded by the real SQLLineageHolder.of; %d of them also as one "
                       "script through LineageRunner. non-trivial = at least two statements and a DROP or RENAME among them."
                       % (n_exh, len(longs), len(runner_traces)))
    chk.cov["exhaustive"] = True
    chk.assumptions += ["statements are rendered in one spelling per abstract statement (spelling variation is C07's matter)",
                        "histories equal to the machine's summary are accepted on the strength of O1; differing histories, a random sample "
                        "and every LineageRunner script go through Trace_Script (ideal relation)"]
