"""C16 - identifiers denote the same entity wherever they appear.  Spec: Names.tla / Trace_Names.tla."""
import multiprocessing as mp
import os
import random

from .. import core, tlc

POS = {"from", "target", "target_column", "collist", "alias_def", "next_stmt_from", "next_stmt_colref", "qualifier", "next_stmt_colref_after_rename", "table_qualifier"}
INVS = ["WrittenIsFoundAgain", "SameSpellingSameEntity", "UnquotedCaseInsensitive", "QuotedKeepsCase", "PrintedAsNormalised", "EmitCase"]


def cfg(chk, name, quotes, maxparts, known=(), emit=False, invariants=INVS):
    kn = {"D_NORM_TWICE@" + p for p in known}
    return tlc.write_cfg(os.path.join(chk.work, name + ".cfg"),
                         constants=dict(Cases={"low", "UP", "Mixed"}, Quotes=set(quotes), Positions=POS, Known=kn, Emit=emit, MaxParts=maxparts),
                         invariants=list(invariants))


def _chunk(cases):
    os.chdir("/tmp")
    from .. import names_drv
    return [names_drv.run(c) for c in cases]


def chunks(xs, n):
    k = max(1, (len(xs) + n - 1) // n)
    return [xs[i:i + k] for i in range(0, len(xs), k)]


def run(chk):
    quick = chk.tier == "quick"
    rnd = random.Random(chk.seed)
    r = chk.tlc("Names", cfg(chk, "mc", ("none", "dq", "bt", "br"), 3), "O1 every spelling x position pair, normaliser applied once", workers=16, timeout=3000)
    if r.violated:
        raise core.MachineryError("Names.tla intended mechanism violates %s" % r.violated)
    chk.require_actions(["Write", "Read"])
    for pos in ("from", "next_stmt_colref"):
        r = chk.tlc("Names", cfg(chk, "dev" + pos, ("none", "dq"), 2, known=[pos]), "expected-fail D_NORM_TWICE at " + pos, workers=8,
                    expect_violation=True, coverage=False)
        chk.self_test("spec finds D_NORM_TWICE at " + pos, bool(r.violated), ",".join(r.violated))
    cases = []
    for quotes in (("none", "dq"), ("none", "bt"), ("none", "br")):
        g = chk.tlc("Names", cfg(chk, "gen" + quotes[1], quotes, 3, emit=True), "generate: spellings with quote style " + quotes[1],
                    workers=1, coverage=False, timeout=3000)
        cs = g.cases("CASE")
        if quotes[1] == "bt":
            full_bt = list(cs)
        if quick:
            # stratified: every column / alias case (one-part names, few), a seeded sample of the table-name cases (1-3 parts, many)
            one = lambda c: len(c["wname"]) == 1 and (c["wpos"] not in ("target", "from") or len(c["rname"]) == 1)   # noqa: E731
            small = [c for c in cs if one(c)]
            big = [c for c in cs if not one(c)]
            rnd.shuffle(big)
            rnd.shuffle(small)
            cs = small[:700] + big[:500]
        cases += cs
        # quoted column names that contain a dot (one name all the same): the column cases again, where both spellings are quoted
        cases += [dict(c, dotted=True) for c in cs if c["rpos"] in ("next_stmt_colref", "next_stmt_colref_after_rename")
                  and c["wname"][0]["q"] != "none" and c["rname"][0]["q"] != "none"]
    # bigquery's other spelling of a quoted path: one pair of backticks around the whole dotted name, `dbx.sch.tab` - the same
    # entity as the name quoted part by part (it splits at its dots all the same).  The table cases whose parts are all backtick
    # quoted once more with the written / the read / both names spelled that way
    bq = [c for c in full_bt if (c["wpos"], c["rpos"]) in (("target", "next_stmt_from"), ("from", "from")) and not c.get("dotted")
          and all(p["q"] == "bt" for p in list(c["wname"]) + list(c["rname"])) and (len(c["wname"]) >= 2 or len(c["rname"]) >= 2)]
    rnd.shuffle(bq)
    cases += [dict(c, whole=rnd.choice(["w", "r", "both"])) for c in bq[:300 if quick else 5000]]
    pool = mp.Pool(16)
    try:
        res = pool.map(_chunk, chunks(cases, 64))
    finally:
        pool.terminate()
    obs = [x for part in res for x in part]
    traces, keep = [], []
    for c, o in zip(cases, obs):
        if "skip" in o:
            continue
        traces.append({"wname": c["wname"], "wpos": c["wpos"], "rname": c["rname"], "rpos": c["rpos"], "wprinted": o["wprinted"],
                       "rprinted": o["rprinted"], "connected": o["connected"], "exc": o["exc"], "hash_consistent": o.get("hash_consistent", True)})
        keep.append((c, o))
    v = core.validate_traces(chk, "Trace_Names", os.path.join(tlc.SPEC, "Trace_Names.cfg"), traces, "names")
    verd = {}
    for i, (line, verdict) in sorted(v.items()):
        c, o = keep[i - 1]
        verd[verdict.split(":")[0]] = verd.get(verdict.split(":")[0], 0) + 1
        chk.count([c["wname"], c["wpos"], c["rname"], c["rpos"], bool(c.get("dotted"))], nontrivial=any(p["q"] != "none" for p in list(c["wname"]) + list(c["rname"])))
        if verdict != "ok":
            chk.reject({"module": "Names", "clause": verdict.split(":")[0], "positions": verdict.split(":")[-1], "dialect": o["dialect"],
                        "quoted_mixed_or_upper": any(p["q"] != "none" and p["c"] != "low" for p in list(c["wname"]) + list(c["rname"]))},
                       {"clause": verdict, "sql": o.get("sql"), "dialect": o["dialect"], "written": c["wname"], "read": c["rname"],
                        "expected_same_entity": c["same"], "observed": {k: o[k] for k in ("wprinted", "rprinted", "connected", "exc")}})
    chk.cov["verdicts"] = verd
    chk.sample({"sql": keep[5][1].get("sql"), "write": [keep[5][0]["wpos"], keep[5][0]["wname"]], "read": [keep[5][0]["rpos"], keep[5][0]["rname"]],
                "observed": {k: keep[5][1][k] for k in ("wprinted", "rprinted", "connected")}})
    bad = core.validate_traces(chk, "Trace_Names", os.path.join(tlc.SPEC, "Trace_Names.cfg"),
                               [dict(traces[0], connected=not traces[0]["connected"])], "selftest")
    chk.cov["traces_validated_against_impl"] -= 1
    chk.self_test("a flipped 'found again' observation is rejected", bad[1][1] != "ok", bad[1][1])
    chk.cov["rule"] = ("cases = (written spelling, position, read spelling, position) printed by TLC from Names.tla: case pattern {lower, UPPER, Mixed} x "
                       "{unquoted, double quotes (ansi), backticks (mysql), square brackets (tsql)} x 1-%d name parts over the position pairs target->later "
                       "FROM, select alias->later column reference (also with the table renamed in between), INSERT column list->later column reference, alias definition->qualifier, FROM->FROM; tables found by the analyser are also compared (==, hash, set membership) with Table(spelling) built directly; "
                       "non-trivial = some part is quoted." % 3)
    chk.assumptions += ["a name uses one quote style (the dialect that admits it analyses the statement)"]
