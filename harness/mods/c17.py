"""C17 - the visualisation server only discloses files under its roots.  Spec: Server.tla / Trace_Server.tla."""
import multiprocessing as mp
import os
import random

from .. import core, tlc

SEGS = {"..", ".", "", "sqlroot", "child.sql", "sub", "nested.sql", "sqlroot_sib", "sib.sql", "outside", "secret.sql",
        "static", "index.html"}


def cfg(chk, name, maxsegs, known=(), emit=False, invariants=("PostContained", "GetContained", "EmitCase")):
    return tlc.write_cfg(os.path.join(chk.work, name + ".cfg"),
                         constants=dict(MaxSegs=maxsegs, Segs=SEGS, Known=set(known), Emit=emit), invariants=list(invariants))


def _replay_chunk(args):
    idx, cases, scratch, variant, mutate = args
    import logging
    logging.disable(logging.CRITICAL)
    from .. import server_drv as d
    rig = d.Rig(os.path.join(scratch, "p%d_%s" % (idx, variant)), variant)
    if mutate == "prefix_gate":
        from pathlib import Path
        rig.app.is_path_allowed = lambda p: str(Path(p).absolute()).startswith(str(Path(rig.app.root_path).absolute()))
    n = 0
    diffs, sample = [], []
    combos = {}
    for c in cases:
        for r in c["reqs"]:
            combos.setdefault(r["start"], []).append((c["segs"], r))
    rnd = random.Random(idx)
    # the configured root is re-pointed between passes (sql directory, the "outside" directory, the sql directory again):
    # the same spellings are asked under each root by the same application object
    for which in ("ROOT", "OUT", "ROOT"):
        for start, items in combos.items():
            for rootset in ("abs", "rel"):
                if start in ("static", "abs") and (rootset == "rel" or which == "OUT"):
                    continue
                rig.configure(start if start not in ("static", "abs") else "base_abs", rootset, which)
                for segs, r in items:
                    if r["root"] not in (which, "STATIC"):
                        continue
                    status, disclosed, raw = rig.request(r["route"], start, segs)
                    n += 1
                    obs = {"segs": segs, "route": r["route"], "start": start, "root": r["root"], "rootset": rootset, "variant": variant,
                           "status": status, "disclosed": disclosed, "raw_status": raw,
                           "path": rig.path_string(start, segs) if r["route"] != "get" else ("//<base>/" if start == "abs" else "/") + "/".join(segs)}
                    if sorted(r["disclosed"]) != disclosed:
                        obs["expected_disclosed"] = sorted(r["disclosed"])
                        diffs.append(obs)
                    elif rnd.random() < 0.01 or (disclosed and rnd.random() < 0.1):
                        sample.append(obs)
    os.chdir("/")
    import shutil
    shutil.rmtree(os.path.join(scratch, "p%d_%s" % (idx, variant)), ignore_errors=True)
    return n, diffs, sample


def chunks(xs, n):
    k = max(1, (len(xs) + n - 1) // n)
    return [xs[i:i + k] for i in range(0, len(xs), k)]


def run(chk):
    quick = chk.tier == "quick"
    # ---------------- O1
    r = chk.tlc("Server", cfg(chk, "mc", 4 if quick else 5), "O1 all paths", workers=16, timeout=3000)
    if r.violated:
        raise core.MachineryError("Server.tla intended mechanism violates %s" % r.violated)
    chk.require_actions(["Walk"]) if chk.cov["actions"] else None
    for dev in ["D_PREFIX_ON_UNNORMALISED", "D_DIRECTORY_LISTS_PARENT_OF_F", "D_GET_NO_DOTDOT_CHECK", "D_GET_KEEPS_ABSOLUTE", "D_GATE_IGNORES_ROOT_CHANGE"]:
        r = chk.tlc("Server", cfg(chk, "dev_" + dev, 3, known=[dev]), "expected-fail " + dev, workers=4,
                    expect_violation=True, coverage=False)
        chk.self_test("spec finds " + dev, bool(r.violated), ",".join(r.violated))
    # ---------------- spec -> code
    r = chk.tlc("Server", cfg(chk, "gen", 3 if quick else 4, emit=True), "generate: every path", workers=1, coverage=False, timeout=3000)
    cases = r.cases("CASE")
    n_exh = len(cases)
    r = chk.tlc("Server", cfg(chk, "gensim", 6, emit=True, invariants=("EmitCase",)), "generate: simulated longer paths", workers=1,
                coverage=False, simulate="num=%d" % (25 if quick else 800), depth=7, seed=chk.seed, timeout=3000)
    sim = r.cases("CASE")
    seen = set()
    for c in sim:
        k = tuple(c["segs"])
        if k not in seen and len(k) > (3 if quick else 4):
            seen.add(k)
            cases.append(c)
    scratch = os.path.join(chk.work, "tree")
    os.makedirs(scratch, exist_ok=True)
    pool = mp.Pool(16)
    try:
        jobs = []
        for variant in ("valid", "invalid"):
            for i, ch in enumerate(chunks(cases, 16)):
                jobs.append((i, ch, scratch, variant, None))
        res = pool.map(_replay_chunk, jobs, chunksize=1)
        # binding self-test: the same replay against an application whose gate is the raw prefix test must be rejected
        probe = [c for c in cases if len(c["segs"]) <= 2]
        mres = pool.map(_replay_chunk, [(100, probe, scratch, "valid", "prefix_gate")])
    finally:
        pool.terminate()
    total = sum(x[0] for x in res)
    diffs = [d for x in res for d in x[1]]
    sample = [d for x in res for d in x[2]]
    rnd = random.Random(chk.seed)
    rnd.shuffle(sample)
    sample = sample[:3000 if quick else 30000]
    chk.cov["evaluations"] = total
    # distinct non-trivial: requests whose path contains a '..' or names something outside the root
    nt = set()
    for c in cases:
        if any(s in ("..", "sqlroot_sib", "outside", "static", "") for s in c["segs"]):
            for q in c["reqs"]:
                nt.add((tuple(c["segs"]), q["route"], q["start"], q["root"]))
    chk.cov["distinct_nontrivial"] = len(nt)
    chk.cov["requests"] = total
    chk.sample({"request": sample[0]} if sample else {})
    for d in sample[:3]:
        chk.sample({"route": d["route"], "path": d["path"].replace(chk.work, "<work>"), "status": d["raw_status"], "disclosed": d["disclosed"]})
    traces = diffs + sample
    tcfg = os.path.join(tlc.SPEC, "Trace_Server.cfg")
    verdicts = {}
    B = 10000
    for off in range(0, len(traces), B):
        v = core.validate_traces(chk, "Trace_Server", tcfg, traces[off:off + B], "server%d" % off)
        for k, val in v.items():
            verdicts[off + k - 1] = val
    for i, (line, verdict) in sorted(verdicts.items()):
        t = traces[i]
        if verdict == "ok":
            if "expected_disclosed" in t:
                chk.drift()
            continue
        t = dict(t)
        t["path"] = t["path"]
        chk.reject({"module": "Server", "clause": verdict, "route": t["route"]},
                   {"request": t, "clause": verdict, "how": "harness.server_drv.Rig.request on sqllineage.drawing.app from /repo; "
                    "tree layout in spec/Server.tla header"})
    # self-test
    mdiffs = mres[0][1]
    if mdiffs:
        v = core.validate_traces(chk, "Trace_Server", tcfg, mdiffs[:2000], "selftest_prefix_gate")
        chk.cov["traces_validated_against_impl"] -= len(mdiffs[:2000])
        bad = [x for x in v.values() if x[1] != "ok"]
    else:
        bad = []
    chk.self_test("application with the raw string-prefix gate is rejected", len(bad) > 0, "%d rejected" % len(bad))
    chk.cov["rule"] = ("cases = requests (route x path spelling x root setting x file-content variant) for every path TLC enumerates: "
                       "all paths with <= %d segments over %d segment kinds (%d paths) plus %d simulated longer paths; each sent to "
                       "the real WSGI app on a scratch tree; disclosure = marker/witness found anywhere in status, headers or body. "
                       "non-trivial = the path contains '..', an empty segment or names a node outside the root."
                       % (3 if quick else 4, len(SEGS), n_exh, len(cases) - n_exh))
    chk.cov["exhaustive"] = True
    chk.assumptions += ["no symbolic links in the scratch tree", "the POST default listing uses SQLLINEAGE_DIRECTORY, set equal to app.root_path",
                        "responses equal to the machine's answer are accepted on the strength of O1 (TLC proved the machine's answer "
                        "acceptable for every request in the bound); differing responses and a random sample go through Trace_Server"]
