"""Run one statement through the real LineageRunner and project its column flow: set of (source atom, target column)."""
from harness import REPO as _REPO
import sys
import warnings

if _REPO not in sys.path:
    sys.path.insert(0, _REPO)


def flow(sql, dialect="ansi", metadata=None, provider=None, lca=False):
    """lca: the analysis runs inside a scope that switches LATERAL_COLUMN_ALIAS_REFERENCE on (the key is read while the
    statement is analysed, i.e. inside get_column_lineage)"""
    if lca:
        from sqllineage.config import SQLLineageConfig
        with SQLLineageConfig(LATERAL_COLUMN_ALIAS_REFERENCE=True):
            return flow(sql, dialect, metadata, provider)
    from sqllineage.runner import LineageRunner
    warnings.simplefilter("ignore")
    try:
        kw = {}
        if provider is not None:
            kw["metadata_provider"] = provider
        elif metadata:
            from sqllineage.core.metadata.dummy import DummyMetaDataProvider
            kw["metadata_provider"] = DummyMetaDataProvider(metadata)
        lr = LineageRunner(sql, dialect=dialect, **kw)
        out = []
        for p in lr.get_column_lineage():
            s, t = p[0], p[-1]
            if len(p) < 2:
                out.append({"k": "one_node", "t": "none", "c": str(s), "cands": [], "tgt": "none"})
                continue
            par = s.parent
            if par is None:
                src = {"k": "unres", "t": "none", "c": s.raw_name, "cands": sorted(str(x) for x in s.parent_candidates)}
            elif type(par).__name__ == "SubQuery":
                src = {"k": "subcol", "t": str(par), "c": s.raw_name, "cands": []}
            else:
                src = {"k": "col", "t": str(par), "c": s.raw_name, "cands": []}
            src["tgt"] = t.raw_name
            src["tgt_owner"] = str(t.parent)
            out.append(src)
        return {"flow": out, "reads": [str(t) for t in lr.source_tables], "target": [str(t) for t in lr.target_tables], "exc": "none"}
    except Exception as e:  # noqa
        return {"flow": [], "reads": [], "target": [], "exc": type(e).__name__}
