"""Driver for C16: render identifier spellings at syntactic positions, run the real analyser, project how names are printed
(case per part) and whether the read found what the write established.  No oracle logic."""
from harness import REPO as _REPO
import sys
import warnings

if _REPO not in sys.path:
    sys.path.insert(0, _REPO)
WORDS = {"tab": ["dbx", "sch", "tab"], "col": ["col"], "ali": ["ali"]}
CASE = {"low": str.lower, "UP": str.upper, "Mixed": lambda s: s[0].upper() + s[1:].lower()}
QUOTE = {"none": ("", ""), "dq": ('"', '"'), "bt": ("`", "`"), "br": ("[", "]")}
DIALECT = {"dq": "ansi", "bt": "mysql", "br": "tsql", "none": "ansi"}


def spell(name, role):
    words = WORDS[role][-len(name):]
    out = []
    for p, w in zip(name, words):
        a, b = QUOTE[p["q"]]
        out.append(a + CASE[p["c"]](w) + b)
    return ".".join(out)


def case_of(part):
    if part == part.lower():
        return "low"
    if part == part.upper():
        return "UP"
    return "Mixed"


def printed(s, nparts):
    """case pattern per part of a printed dotted name (last nparts parts)"""
    if s is None:
        return ["<absent>"]
    parts = s.split(".")
    if parts and parts[0] == "<default>":
        parts = parts[1:]
    return [case_of(p) for p in parts[-nparts:]]


def dialect_for(wname, rname):
    qs = {p["q"] for p in list(wname) + list(rname)} - {"none"}
    if len(qs) > 1:
        return None
    return DIALECT[qs.pop()] if qs else "ansi"


def _hash_ok(found, spelling, nparts):
    """a Table built directly from the same spelling that compares equal to the one the analyser found must hash equally
    and be found in a set (1-2 part names: the string constructor does not take quoted 3-part names apart)"""
    if nparts > 2 or "[" in spelling:
        return True
    from sqllineage.core.models import Table
    try:
        t = Table(spelling)
    except Exception:  # noqa
        return True
    if t == found:
        return hash(t) == hash(found) and t in {found} and found in {t}
    return True


def run(case):
    from sqllineage.runner import LineageRunner
    warnings.simplefilter("ignore")
    wn, rn, wp, rp = case["wname"], case["rname"], case["wpos"], case["rpos"]
    dia = dialect_for(wn, rn)
    if dia is None:
        return {"skip": "mixed quote styles"}
    whole = case.get("whole")
    if whole:
        dia = "bigquery"

    def wh(text, which):
        # `a`.`b`.`c` -> `a.b.c`
        return "`" + text.replace("`", "") + "`" if whole in (which, "both") and text.count(".") >= 1 else text
    out = {"exc": "none", "dialect": dia, "hash_consistent": True}
    try:
        if (wp, rp) == ("target", "next_stmt_from"):
            W, R = wh(spell(wn, "tab"), "w"), wh(spell(rn, "tab"), "r")
            s1 = "insert into %s select c1 from src0" % W
            s2 = "insert into fin select c1 from %s" % R
            out["sql"] = s1 + ";\n" + s2
            a = LineageRunner(s1, dialect=dia)
            b = LineageRunner(s2, dialect=dia)
            out["wprinted"] = printed(str(a.target_tables[0]), len(wn))
            out["rprinted"] = printed(str(b.source_tables[0]), len(rn))
            lr = LineageRunner(out["sql"], dialect=dia)
            out["connected"] = len(lr.intermediate_tables) == 1
            out["hash_consistent"] = _hash_ok(a.target_tables[0], W, len(wn)) and _hash_ok(b.source_tables[0], R, len(rn))
        elif (wp, rp) == ("from", "from"):
            W, R = wh(spell(wn, "tab"), "w"), wh(spell(rn, "tab"), "r")
            out["sql"] = "insert into fin select c1 from %s union all select c1 from %s" % (W, R)
            a = LineageRunner("select c1 from %s" % W, dialect=dia)
            b = LineageRunner("select c1 from %s" % R, dialect=dia)
            out["wprinted"] = printed(str(a.source_tables[0]), len(wn))
            out["rprinted"] = printed(str(b.source_tables[0]), len(rn))
            lr = LineageRunner(out["sql"], dialect=dia)
            out["connected"] = len(lr.source_tables) == 1
            out["hash_consistent"] = _hash_ok(a.source_tables[0], W, len(wn))
        elif (wp, rp) == ("from", "table_qualifier"):
            W, R = spell(wn, "tab"), spell(rn, "tab")
            out["sql"] = "insert into fin select %s.c1 from %s" % (R, W)
            lr = LineageRunner(out["sql"], dialect=dia)
            paths = lr.get_column_lineage()
            owner, src = paths[0][0].parent, lr.source_tables[0]
            out["connected"] = owner == src
            out["wprinted"] = printed(str(src), len(wn))
            # the qualifier is printed when it is not found (it becomes a table name of its own): its leaf part
            out["rprinted"] = printed(str(owner), len(rn)) if out["connected"] else printed(str(src), len(rn))[:-1] + printed(str(owner), 1)
            out["hash_consistent"] = (_hash_ok(src, W, len(wn)) and
                                      (owner != src or (hash(owner) == hash(src) and owner in {src} and len({owner, src}) == 1)))
            # the same reference while the table is read under an alias: the qualifier then names nothing in scope and falls back to
            # a table of that name - an entity that, where it compares equal to the table read, must hash equally too
            lr2 = LineageRunner("insert into fin select %s.c1 from %s zz9" % (R, W), dialect=dia)
            for p2 in lr2.get_column_lineage():
                o2 = p2[0].parent
                for t2 in lr2.source_tables:
                    if o2 == t2 and not (hash(o2) == hash(t2) and o2 in {t2} and len({o2, t2}) == 1):
                        out["hash_consistent"] = False
        elif rp in ("next_stmt_colref", "next_stmt_colref_after_rename"):
            W, R = spell(wn, "col"), spell(rn, "col")
            if case.get("dotted"):
                # a quoted name may contain a dot: it is one name all the same
                W, R = W.replace("ol", "o.l").replace("OL", "O.L"), R.replace("ol", "o.l").replace("OL", "O.L")
            s1 = ("insert into mid select c0 as %s from src0" % W) if wp == "target_column" else ("insert into mid (%s) select c0 from src0" % W)
            s2 = "insert into fin select %s as out1 from mid" % R
            if rp == "next_stmt_colref_after_rename":
                s2 = "alter table mid rename to mid2;\ninsert into fin select %s as out1 from mid2" % R
            out["sql"] = s1 + ";\n" + s2
            a = LineageRunner(s1, dialect=dia).get_column_lineage()
            b = LineageRunner(s2.split(";\n")[-1], dialect=dia).get_column_lineage()
            out["wprinted"] = [case_of(a[0][-1].raw_name)]
            out["rprinted"] = [case_of(b[0][0].raw_name)]
            paths = LineageRunner(out["sql"], dialect=dia).get_column_lineage()
            out["connected"] = any(len(p) == 3 and p[0].raw_name == "c0" and p[-1].raw_name == "out1" for p in paths)
        elif (wp, rp) == ("alias_def", "qualifier"):
            W, R = spell(wn, "ali"), spell(rn, "ali")
            out["sql"] = "insert into fin select %s.c1 from src0 %s" % (R, W)
            paths = LineageRunner(out["sql"], dialect=dia).get_column_lineage()
            owner = str(paths[0][0].parent)
            out["connected"] = owner == "<default>.src0"
            # an alias is never printed; the qualifier is, when it is not found (it becomes a table name)
            out["wprinted"] = [("low" if wn[0]["q"] == "none" else wn[0]["c"])]
            out["rprinted"] = printed(owner, 1) if not out["connected"] else [("low" if rn[0]["q"] == "none" else rn[0]["c"])]
        else:
            return {"skip": "no template for %s->%s" % (wp, rp)}
    except Exception as e:  # noqa
        out["exc"] = type(e).__name__
        out.setdefault("wprinted", [])
        out.setdefault("rprinted", [])
        out.setdefault("connected", False)
    return out
