"""Renderer: abstract program of Stmt.tla (list of grammar events) -> token list -> SQL text.
Spelling is a parameter (opts): aliasing, AS keyword, naming of local names, keyword case, layout, comments, default schema
qualification.  The renderer emits TOKENS, so 'every token boundary' is exact for the spelling variants of C07."""
import random

KW = {"select", "from", "join", "on", "where", "in", "union", "all", "as", "with", "insert", "into", "create", "table", "view",
      "update", "set", "merge", "using", "when", "matched", "then", "delete", "having", "group", "by", "and", "not", "exists", "inner",
      "left", "cross", "or", "all", "recursive"}


class Opts:
    def __init__(self, **kw):
        self.alias_tables = True      # give table items an alias
        self.as_kw = False            # write AS before aliases
        self.names = None             # function(i) -> local alias name; default q<i>
        self.cte_names = None         # dict: program CTE name -> rendered name
        self.kw_upper = False
        self.ident_upper = False
        self.quote = None             # quote char pair for lower-case identifiers, e.g. ('"','"')
        self.sep = " "
        self.comment_at = None        # token boundary index to put a comment at
        self.comment = "/* c */"
        self.newline_at = None
        self.trailing_semicolons = 0
        self.join_kw = "join"
        self.qualify = None           # write unqualified table names as <qualify>.<name>
        self.where_op = "in"
        self.merge_direct = False     # MERGE ... USING <table> when the source query is one table
        self.sub_with = False         # every derived table carries a WITH clause of its own: ( WITH zw AS ( Q ) SELECT c1 FROM zw )
        self.recursive_kw = True      # a WITH clause with a recursive CTE is written WITH RECURSIVE (False: tsql, oracle, db2 have no such keyword)
        self.cond_with = False        # every subquery in WHERE / ON / HAVING / the select list is a WITH query with two chained CTEs
        self.isub_form = "plain"      # where a select-list subquery sits: plain | else | then | func | func_in_expr
        self.names_pool = None        # list of alias names used in order (JSON-friendly form of names)
        self.alias_scope = "global"   # "local": alias numbering restarts in every query scope (aliases re-used across scopes)
        self.__dict__.update(kw)
        if self.names_pool and not self.names:
            pool = list(self.names_pool)
            self.names = lambda i: pool[(i - 1) % len(pool)] if i <= len(pool) else "q%d" % i


class R:
    def __init__(self, prog, opts):
        self.p = prog
        self.o = opts
        self.pos = 0
        self.n_alias = 0
        self.scopes = [0]
        self.toks = []

    def ident(self, s):
        o = self.o
        if s.startswith('"'):
            return s
        if o.quote and s.replace("_", "").isalnum() and s.lower() == s:
            return o.quote[0] + s + o.quote[1]      # quoting an identifier that is already lower-case
        if o.ident_upper:
            s = s.upper()
        return s

    def kw(self, s):
        return s.upper() if self.o.kw_upper else s

    def alias(self):
        if self.o.alias_scope == "local":
            self.scopes[-1] += 1
            n = self.scopes[-1]
        else:
            self.n_alias += 1
            n = self.n_alias
        if self.o.names:
            return self.o.names(n)
        return "q%d" % n

    def tname(self, ev):
        schema, name = ev["b"], ev["c"]
        if ev["e"] == "cteref":
            return [self.ident((self.o.cte_names or {}).get(name, name))]
        if schema != "none":
            return [self.ident(schema), ".", self.ident(name)]
        if self.o.qualify:
            return [self.ident(self.o.qualify), ".", self.ident(name)]
        return [self.ident(name)]

    def with_alias(self, toks, force=True):
        if not force and not self.o.alias_tables:
            return toks
        a = self.alias()
        return toks + ([self.kw("as")] if self.o.as_kw else []) + [self.ident(a)]

    def wrap_with(self, q):
        if not self.o.sub_with:
            return q
        self.nw = getattr(self, "nw", 0) + 1
        zw = self.ident("zw%d" % self.nw)
        return [self.kw("with"), zw, self.kw("as"), "("] + q + [")", self.kw("select"), self.ident("c1"), self.kw("from"), zw]

    def wrap_cond(self, q):
        """( WITH zv1 AS ( Q ), zv2 AS ( SELECT c1 FROM zv1 ) SELECT c1 FROM zv2 ): a condition subquery with CTEs of its own, one
        of which reads the other"""
        if not self.o.cond_with:
            return q
        self.nv = getattr(self, "nv", 0) + 1
        a, b = self.ident("zv%da" % self.nv), self.ident("zv%db" % self.nv)
        return [self.kw("with"), a, self.kw("as"), "("] + q + [")", ",", b, self.kw("as"), "(", self.kw("select"), self.ident("c1"), self.kw("from"), a, ")",
                self.kw("select"), self.ident("c1"), self.kw("from"), b]

    def query(self, into=None):
        """parse branches until 'end'; returns token list"""
        branches = []
        cur = {"from": [], "where": None, "isub": None, "having": None}
        self.scopes.append(0)
        while True:
            ev = self.p[self.pos]
            self.pos += 1
            e = ev["e"]
            if e in ("tbl", "cteref"):
                cur["from"].append((ev["a"], self.with_alias(self.tname(ev), force=False)))
            elif e == "selfref":
                cur["from"].append((ev["a"], self.with_alias([self.ident((self.o.cte_names or {}).get(ev["c"], ev["c"]))], force=False)))
            elif e == "sub":
                q = self.wrap_with(self.query())
                cur["from"].append((ev["a"], self.with_alias(["("] + q + [")"])))
            elif e == "paren":
                cur["from"].append((ev["a"], ["("] + self.from_list(self.paren_items()) + [")"]))
            elif e == "where":
                if cur["where"] is not None:
                    cur["where2"] = self.wrap_cond(self.query())
                else:
                    cur["where"] = self.wrap_cond(self.query())
            elif e == "isub":
                cur["isub"] = self.wrap_cond(self.query())
            elif e == "having":
                cur["having"] = self.wrap_cond(self.query())
            elif e == "on":
                # the condition of the join just written: JOIN x ON c1 IN ( SELECT ... )
                j, toks = cur["from"][-1][:2]
                cur["from"][-1] = (j, toks, self.wrap_cond(self.query()))
            elif e == "union":
                branches.append(cur)
                cur = {"from": [], "where": None, "isub": None, "having": None}
                self.scopes[-1] = 0          # every branch of a set operation is a scope of its own
            elif e == "ubranch":
                # the next branch is a parenthesised query with a set operation of its own
                branches.append(cur)
                branches.append({"nested": self.query()})
                cur = None
            elif e == "end":
                if cur is not None:
                    branches.append(cur)
                self.scopes.pop()
                break
            else:
                raise ValueError(e)
        out = []
        for bi, b in enumerate(branches):
            if bi:
                out += [self.kw("union"), self.kw("all")]
            if "nested" in b:
                out += ["("] + b["nested"] + [")"]
                continue
            out += [self.kw("select"), self.ident("c1")]
            if b["isub"]:
                q = ["("] + b["isub"] + [")"]
                how = self.o.isub_form
                if how == "else":          # ELSE branch of a CASE
                    q = [self.kw("case"), self.kw("when"), self.ident("c1"), ">", "0", self.kw("then"), "1", self.kw("else")] + q + [self.kw("end")]
                elif how == "func_in_expr":   # argument of a function inside an expression
                    q = [self.ident("c1"), "+", "coalesce", "("] + q + [",", "0", ")"]
                elif how == "func":        # argument of a function
                    q = ["coalesce", "(", "("] + q + [")", ",", "0", ")"]
                elif how == "paren2":      # doubled brackets
                    q = ["("] + q + [")"]
                elif how == "cond":        # below a bracketed CASE WHEN condition, as a function argument
                    q = [self.kw("case"), self.kw("when"), "(", self.ident("c1"), "=", "coalesce", "(", "("] + q + [")", ",", "0", ")", ")", self.kw("then"), "1", self.kw("else"), "0", self.kw("end")]
                elif how == "then":
                    q = [self.kw("case"), self.kw("when"), self.ident("c1"), ">", "0", self.kw("then")] + q + [self.kw("end")]
                out += [","] + q + [self.kw("as"), self.ident("c2")]
            if into and bi == 0:
                out += [self.kw("into")] + into
            out += [self.kw("from")] + self.from_list(b["from"])
            out += self.tail(b)
        return out

    def paren_items(self):
        items = []
        while True:
            ev = self.p[self.pos]
            self.pos += 1
            e = ev["e"]
            if e in ("tbl", "cteref"):
                items.append((ev["a"], self.with_alias(self.tname(ev), force=False)))
            elif e == "sub":
                q = self.wrap_with(self.query())
                items.append((ev["a"], self.with_alias(["("] + q + [")"])))
            elif e == "paren":
                items.append((ev["a"], ["("] + self.from_list(self.paren_items()) + [")"]))
            elif e == "end":
                return items
            else:
                raise ValueError("paren: " + e)

    def from_list(self, items):
        out = []
        for it in items:
            join, toks = it[:2]
            if join == "first":
                out += toks
            elif join == "comma":
                out += [","] + toks
            elif len(it) > 2:
                out += [self.kw(w) for w in self.o.join_kw.split()] + toks + [self.kw("on"), self.ident("c1"), self.kw("in"), "("] + it[2] + [")"]
            else:
                out += [self.kw(w) for w in self.o.join_kw.split()] + toks + [self.kw("on"), "1", "=", "1"]
        return out

    def tail(self, b):
        out = []
        if b.get("where2"):
            # both sides of one comparison are subqueries
            out += [self.kw("where"), "("] + b["where"] + [")", ">", "("] + b["where2"] + [")"]
        elif b["where"]:
            wop = self.o.where_op
            depth, top_comma = 0, False
            for t in b["where"]:
                depth += (t == "(") - (t == ")")
                top_comma = top_comma or (t == "," and depth == 0)
            if wop in ("all", "func") and top_comma:
                wop = "nested_bool"       # behind ALL / in a function call the parser reads a top-level comma as an argument separator
            if wop == "all":
                out += [self.kw("where"), self.ident("c1"), ">", self.kw("all"), "("] + b["where"] + [")"]
            elif wop == "nested_bool":
                out += [self.kw("where"), self.ident("c1"), "=", "1", self.kw("and"), "(", self.ident("c1"), self.kw("in"), "("] + b["where"] + [")", self.kw("or"), self.ident("c1"), "=", "2", ")"]
            elif wop == "func":
                out += [self.kw("where"), "coalesce", "(", "("] + b["where"] + [")", ",", "0", ")", ">", self.ident("c1")]
            elif wop == "in_with_bracket":
                # the IN subquery next to another bracket in the same condition
                out += [self.kw("where"), "(", self.ident("c1"), "=", "1", self.kw("or"), self.ident("c1"), "=", "2", ")", self.kw("and"), self.ident("c1"), self.kw("in"), "("] + b["where"] + [")"]
            elif wop == "exists":
                out += [self.kw("where"), self.kw("exists"), "("] + b["where"] + [")"]
            else:
                out += [self.kw("where"), self.ident("c1"), self.kw("in"), "("] + b["where"] + [")"]
        if b["having"]:
            out += [self.kw("group"), self.kw("by"), self.ident("c1"), self.kw("having"), self.ident("c1"), ">", "("] + b["having"] + [")"]
        return out

    def statement(self):
        ev = self.p[0]
        kind = ev["a"]
        self.pos = 1
        ctes = []
        while self.p[self.pos]["e"] == "cte":
            n = self.p[self.pos]["a"]
            self.pos += 1
            q = self.query()
            ctes.append([self.ident((self.o.cte_names or {}).get(n, n)), self.kw("as"), "("] + q + [")"])
        assert self.p[self.pos]["e"] == "main"
        self.pos += 1
        w = []
        if ctes:
            w = [self.kw("with")]
            if self.o.recursive_kw and any(ev["e"] == "selfref" for ev in self.p):
                w.append(self.kw("recursive"))
            for i, c in enumerate(ctes):
                w += ([","] if i else []) + c
        tgt = [self.ident(self.o.qualify), ".", self.ident("tgt")] if self.o.qualify else [self.ident("tgt")]
        if kind == "update":
            # UPDATE tgt SET c1 = 1 FROM <from list> [WHERE ...]
            save = self.pos
            body = self._single_branch()
            return w + [self.kw("update")] + tgt + [self.kw("set"), self.ident("c1"), "=", "1", self.kw("from")] + self.from_list(body["from"]) + self.tail(body)
        if kind == "select_into":
            return w + self.query(into=tgt)
        self.pos_main = self.pos
        q = self.query()
        if kind == "insert":
            return [self.kw("insert"), self.kw("into")] + tgt + w + q
        if kind == "ctas":
            return [self.kw("create"), self.kw("table")] + tgt + [self.kw("as")] + w + q
        if kind == "view":
            return [self.kw("create"), self.kw("view")] + tgt + [self.kw("as")] + w + q
        if kind == "query":
            return w + q
        if kind == "merge":
            mq = self.ident("mq")
            body = self.p[self.pos_main:]
            if self.o.merge_direct and len(body) == 2 and body[0]["e"] in ("tbl", "cteref") and body[1]["e"] == "end":
                # MERGE INTO tgt USING <table or CTE> mq ON ...: the source named directly, not through a subquery
                src = self.tname(body[0])
                return (w + [self.kw("merge"), self.kw("into")] + tgt + [self.kw("using")] + src + [mq, self.kw("on")] + tgt[-1:] + [".", self.ident("c1"), "=", mq, ".", self.ident("c1")]
                        + [self.kw("when"), self.kw("matched"), self.kw("then"), self.kw("update"), self.kw("set"), self.ident("c1"), "=", mq, ".", self.ident("c1")])
            return (w + [self.kw("merge"), self.kw("into")] + tgt + [self.kw("using"), "("] + q + [")", mq, self.kw("on")] + tgt[-1:] + [".", self.ident("c1"), "=", mq, ".", self.ident("c1")]
                    + [self.kw("when"), self.kw("matched"), self.kw("then"), self.kw("update"), self.kw("set"), self.ident("c1"), "=", mq, ".", self.ident("c1")])
        if kind == "delete":
            return w + [self.kw("delete"), self.kw("from")] + tgt + [self.kw("where"), self.ident("c1"), self.kw("in"), "("] + q + [")"]
        raise ValueError(kind)

    def _single_branch(self):
        cur = {"from": [], "where": None, "isub": None, "having": None}
        while True:
            ev = self.p[self.pos]
            self.pos += 1
            e = ev["e"]
            if e in ("tbl", "cteref"):
                cur["from"].append((ev["a"], self.with_alias(self.tname(ev), force=False)))
            elif e == "selfref":
                cur["from"].append((ev["a"], self.with_alias([self.ident((self.o.cte_names or {}).get(ev["c"], ev["c"]))], force=False)))
            elif e == "sub":
                q = self.wrap_with(self.query())
                cur["from"].append((ev["a"], self.with_alias(["("] + q + [")"])))
            elif e == "paren":
                cur["from"].append((ev["a"], ["("] + self.from_list(self.paren_items()) + [")"]))
            elif e == "where":
                if cur["where"] is not None:
                    cur["where2"] = self.query()
                else:
                    cur["where"] = self.query()
            elif e == "on":
                j, toks = cur["from"][-1][:2]
                cur["from"][-1] = (j, toks, self.wrap_cond(self.query()))
            elif e == "end":
                return cur
            else:
                raise ValueError("update body: " + e)


def tokens(prog, opts=None):
    return R(prog, opts or Opts()).statement()


def join_tokens(toks, opts=None):
    o = opts or Opts()
    out = []
    for i, t in enumerate(toks):
        if i:
            glue = o.sep
            prev = toks[i - 1]
            # no blank around dots (a dotted name is one lexical unit for most dialects)
            if t == "." or prev == ".":
                glue = ""
            if o.comment_at == i and glue != "":
                glue = " " + o.comment + " "
            if o.newline_at == i and glue != "":
                glue = "\n"
            out.append(glue)
        out.append(t)
    return "".join(out) + ";" * o.trailing_semicolons


def render(prog, opts=None):
    o = opts or Opts()
    return join_tokens(tokens(prog, o), o)


def n_boundaries(prog, opts=None):
    return len(tokens(prog, opts or Opts()))
