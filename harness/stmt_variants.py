"""Replay of Stmt.tla programs under variants (spelling, naming, dialect, default schema).  Renderer + runner only."""
import multiprocessing as mp
import os


def _init(env):
    for k, v in (env or {}).items():
        os.environ[k] = v
    os.chdir("/tmp")


def _job_chunk(jobs):
    import warnings
    warnings.simplefilter("ignore")
    from . import render_stmt as R
    from . import stmt_drv as d
    import sqllineage.runner  # noqa: import the library before any scoped configuration is entered (import-time defaults)
    out = []
    for j in jobs:
        opts = R.Opts(**j.get("opts", {}))
        try:
            sql = R.render(j["prog"], opts)
        except Exception as e:  # noqa
            out.append({"skip": "render:" + type(e).__name__})
            continue
        dia = j.get("dialect", "ansi")
        if j["prog"][0]["a"] == "select_into" and dia not in ("tsql", "postgres", "redshift", "greenplum"):
            # elsewhere SELECT ... INTO assigns variables (or does not exist): not the statement the program means
            out.append({"skip": "select into is not a table-creating statement in this dialect"})
            continue
        if dia != "non-validating" and j.get("check_accept", dia != "ansi"):
            # eligibility is the parser's decision, never sqllineage's
            if not d.accepts(sql, dia):
                out.append({"skip": "parser rejects", "sql": sql, "dialect": dia})
                continue
        mech = j.get("mech", "none")
        if mech == "scoped":
            from sqllineage.config import SQLLineageConfig
            with SQLLineageConfig(DEFAULT_SCHEMA=j["ds"]):
                o = d.tables(sql, dia)
        elif mech == "served_scoped":
            # the web application asked inside the scope: POST /lineage on the WSGI app; its table-level export projected onto
            # (tables with an outgoing edge or no edge at all, tables with an incoming edge)
            from sqllineage.config import SQLLineageConfig
            from . import drive
            try:
                from sqllineage.core.metadata.dummy import DummyMetaDataProvider
                with SQLLineageConfig(DEFAULT_SCHEMA=j["ds"]):
                    dag, _ = drive.served_exports(sql, dia, DummyMetaDataProvider())
                nodes = {x["data"]["id"] for x in dag if "source" not in x["data"]}
                edges = [(x["data"]["source"], x["data"]["target"]) for x in dag if "source" in x["data"]]
                tg = {b for _, b in edges}
                o = {"reads": sorted({a for a, _ in edges} | (nodes - tg if not edges else set())), "target": sorted(tg), "mid": [], "exc": "none"}
            except Exception as e:  # noqa
                o = {"reads": [], "target": [], "mid": [], "exc": type(e).__name__}
        else:
            o = d.tables(sql, dia)
        o["sql"] = sql
        o["dialect"] = dia
        o["ds"] = j.get("ds_expect", "none")
        o["mech"] = mech
        out.append(o)
    return out


def chunks(xs, n):
    k = max(1, (len(xs) + n - 1) // n)
    return [xs[i:i + k] for i in range(0, len(xs), k)]


def run(jobs, env=None, procs=16):
    pool = mp.Pool(procs, initializer=_init, initargs=(env,))
    try:
        res = pool.map(_job_chunk, chunks(jobs, procs * 6))
    finally:
        pool.terminate()
    return [x for part in res for x in part]
