"""Thin driver around TLC: run a module/config, parse counts, coverage, printed tuples, violations.

Nothing here knows about sqllineage.  A TLC problem that is not an *expected* property report is a
machinery failure (MachineryError -> exit 2), never a verdict.
"""
import json
import os
import re
import shutil
import subprocess
import threading
import time

VERIF = os.path.dirname(os.path.dirname(os.path.abspath(__file__)))
SPEC = os.path.join(VERIF, "spec")
WORK = os.path.join(VERIF, ".work")
JAR = "/opt/veriftools/tla/tla2tools.jar:/opt/veriftools/tla/CommunityModules-deps.jar"


class MachineryError(Exception):
    pass


class TLCResult:
    def __init__(self):
        self.out = ""
        self.generated = 0
        self.distinct = 0
        self.depth = 0
        self.violated = []      # names of invariants / properties TLC reported as violated
        self.errors = []        # other error lines
        self.coverage = {}      # action name -> (taken, distinct) from -coverage
        self.tuples = []        # parsed PrintT tuples: list of python lists
        self.wall = 0.0
        self.cmd = ""
        self.trace = []         # counterexample states (raw text blocks)

    def cases(self, tag):
        """payloads of PrintT(<<tag, ToJson(x)>>) lines, json-decoded"""
        return [t[1] for t in self.tuples if t and t[0] == tag]


_TUPLE = re.compile(r'^<<"([A-Z_]+)", (.*)>>$')


def _parse_tuple_line(line):
    m = _TUPLE.match(line)
    if not m:
        return None
    tag, rest = m.group(1), m.group(2)
    # rest is either one TLA+ string holding JSON, or comma-separated ints/strings
    rest = rest.strip()
    if rest.startswith('"'):
        # possibly several strings / numbers: parse as a JSON array
        try:
            arr = json.loads("[" + rest + "]")
        except ValueError:
            return None
        out = []
        for a in arr:
            if isinstance(a, str) and a[:1] in "[{":
                try:
                    a = json.loads(a)
                except ValueError:
                    pass
            out.append(a)
        return [tag] + out
    try:
        arr = json.loads("[" + rest + "]")
    except ValueError:
        return [tag, rest]
    return [tag] + arr


def run(module, cfg, workdir, workers=16, timeout=1800, simulate=None, depth=None, seed=None,
        env=None, coverage=True, expect_violation=False, deadlock=False, heap="8g", dfid=None, extra=()):
    """Run TLC on spec/<module>.tla with config file cfg (absolute path or name under spec/)."""
    os.makedirs(workdir, exist_ok=True)
    # TLC's state queue / fingerprint files are pure scratch: keep them in memory when possible (disk I/O dominated otherwise)
    shm = "/dev/shm"
    metaroot = workdir
    if False and os.path.isdir(shm) and os.access(shm, os.W_OK):
        metaroot = os.path.join(shm, "verif_tlc_%d" % os.getpid())
        os.makedirs(metaroot, exist_ok=True)
    meta = os.path.join(metaroot, "meta_%s_%d_%d" % (module, int(time.time() * 1000) % 100000000, threading.get_ident() % 100000))
    if not os.path.isabs(cfg):
        cfg = os.path.join(SPEC, cfg)
    cmd = ["java", "-XX:+UseParallelGC", "-Xmx" + heap, "-cp", JAR, "tlc2.TLC",
           "-workers", str(workers), "-metadir", meta, "-noGenerateSpecTE", "-config", cfg]
    if coverage and not simulate:
        cmd += ["-coverage", "1"]
    if simulate:
        cmd += ["-simulate", simulate]
    if depth:
        cmd += ["-depth", str(depth)]
    if seed is not None:
        cmd += ["-seed", str(seed)]
    if deadlock is False:
        pass  # configs carry CHECK_DEADLOCK FALSE
    cmd += list(extra)
    cmd += [module + ".tla"]
    e = dict(os.environ)
    if env:
        e.update(env)
    t0 = time.time()
    res = TLCResult()
    res.cmd = " ".join(cmd)
    try:
        p = subprocess.run(cmd, cwd=SPEC, env=e, stdout=subprocess.PIPE, stderr=subprocess.STDOUT,
                           text=True, timeout=timeout)
    except subprocess.TimeoutExpired as ex:
        shutil.rmtree(meta, ignore_errors=True)
        raise MachineryError("TLC timeout after %ss: %s" % (timeout, res.cmd)) from ex
    finally:
        pass
    shutil.rmtree(meta, ignore_errors=True)
    res.wall = time.time() - t0
    res.out = p.stdout
    _parse(res)
    if not expect_violation and (res.errors and not res.violated):
        raise MachineryError("TLC error in %s/%s:\n%s" % (module, os.path.basename(cfg), "\n".join(res.errors[:20])
                                                           + "\n--- tail ---\n" + res.out[-3000:]))
    if "Finished in" not in res.out and not simulate:
        raise MachineryError("TLC did not finish: %s\n%s" % (res.cmd, res.out[-3000:]))
    return res


def _parse(res):
    cov_action = re.compile(r"^<(\w+) line \d+, col \d+ to line \d+, col \d+ of module (\w+)>: (\d+):(\d+)")
    in_err = False
    pending = None
    for line in res.out.splitlines():
        # TLC wraps long tuples over several lines: join until the brackets balance
        if pending is not None:
            pending += " " + line.strip()
            if pending.count("<<") > pending.count(">>"):
                continue
            line = re.sub(r'^<<\s+"', '<<"', pending)
            line = re.sub(r'\s+>>$', '>>', line)
            pending = None
        elif line.startswith("<< \"") and line.count("<<") > line.count(">>"):
            pending = line.rstrip()
            continue
        if line.startswith("<<\""):
            t = _parse_tuple_line(line.rstrip())
            if t is not None:
                res.tuples.append(t)
                continue
        m = re.match(r"^(\d+) states generated, (\d+) distinct states found", line)
        if m:
            res.generated, res.distinct = int(m.group(1)), int(m.group(2))
            continue
        m = re.match(r"^The depth of the complete state graph search is (\d+)", line)
        if m:
            res.depth = int(m.group(1))
            continue
        m = re.match(r"^Error: Invariant (\w+) is violated", line)
        if m:
            res.violated.append(m.group(1))
            continue
        m = re.match(r"^Error: Action property (\w+) is violated", line)
        if m:
            res.violated.append(m.group(1))
            continue
        if line.startswith("Error: Temporal properties were violated") or "is violated" in line and line.startswith("Error:"):
            res.violated.append(line[len("Error: "):])
            continue
        if line.startswith("Error:"):
            # the behaviour print-out following a violation starts with this line; not an error by itself
            if "The behavior up to this point is" in line or "The following behavior constitutes a counter-example" in line:
                continue
            res.errors.append(line)
            continue
        m = cov_action.match(line)
        if m:
            name, mod, taken, distinct = m.group(1), m.group(2), int(m.group(3)), int(m.group(4))
            key = name
            old = res.coverage.get(key, (0, 0))
            res.coverage[key] = (max(old[0], taken), max(old[1], distinct))
    # counterexample (if any): keep the raw block
    if res.violated:
        i = res.out.find("The behavior up to this point is")
        if i >= 0:
            j = res.out.find("states generated", i)
            res.trace = res.out[i:j if j > 0 else None].splitlines()[:400]


def write_cfg(path, spec="Spec", constants=None, invariants=(), properties=(), constraints=(),
              action_constraints=(), postcondition=None, view=None, init=None, next_=None, symmetry=None):
    """Emit a literal .cfg (constants written as TLA+ literals)."""
    lines = []
    if init and next_:
        lines += ["INIT " + init, "NEXT " + next_]
    else:
        lines.append("SPECIFICATION " + spec)
    if constants:
        lines.append("CONSTANTS")
        for k, v in constants.items():
            lines.append("  %s = %s" % (k, tla(v)) if not (isinstance(v, str) and v.startswith("<-")) else "  %s %s" % (k, v))
    for i in invariants:
        lines.append("INVARIANT " + i)
    for p in properties:
        lines.append("PROPERTY " + p)
    for c in constraints:
        lines.append("CONSTRAINT " + c)
    for c in action_constraints:
        lines.append("ACTION_CONSTRAINT " + c)
    if postcondition:
        lines.append("POSTCONDITION " + postcondition)
    if view:
        lines.append("VIEW " + view)
    if symmetry:
        lines.append("SYMMETRY " + symmetry)
    lines.append("CHECK_DEADLOCK FALSE")
    with open(path, "w") as f:
        f.write("\n".join(lines) + "\n")
    return path


class Raw(str):
    """a TLA+ expression passed through unquoted"""


def tla(v):
    """python value -> TLA+ literal (sets from set/frozenset, sequences from list/tuple, records from dict)"""
    if isinstance(v, Raw):
        return str(v)
    if isinstance(v, bool):
        return "TRUE" if v else "FALSE"
    if isinstance(v, int):
        return str(v)
    if isinstance(v, str):
        return json.dumps(v)
    if isinstance(v, (set, frozenset)):
        return "{" + ", ".join(sorted(tla(x) for x in v)) + "}"
    if isinstance(v, (list, tuple)):
        return "<<" + ", ".join(tla(x) for x in v) + ">>"
    if isinstance(v, dict):
        if not v:
            return "<<>>"
        return "[" + ", ".join("%s |-> %s" % (k, tla(x)) for k, x in v.items()) + "]"
    raise TypeError(type(v))
