"""Driver for the statement fold (C03 and friends): render abstract statements, analyse them with the real analyzer,
fold them with the real SQLLineageHolder.of / LineageRunner, project the public summary.  No oracle logic."""
from harness import REPO as _REPO
import json
import sys
import warnings

if _REPO not in sys.path:
    sys.path.insert(0, _REPO)
warnings.simplefilter("ignore")


def render(s, dialect="ansi"):
    k = s["k"]
    if k == "drop":
        return "drop table %s" % s["t"]
    if k == "ren":
        ps = s["pairs"]
        if len(ps) == 1 and dialect != "mysql":
            return "alter table %s rename to %s" % (ps[0][0], ps[0][1])
        return "rename table " + ", ".join("%s to %s" % (p[0], p[1]) for p in ps)
    r, w = sorted(s["r"]), s["w"]
    what = "1" if s.get("cl") else "*"
    if w == "none":
        return "select %s from %s" % (what, ", ".join(r))
    if not r:
        return "insert into %s values (1)" % w
    return "insert into %s select %s from %s" % (w, what, ", ".join(r))


def dialect_of(s):
    return "mysql" if s["k"] == "ren" and len(s["pairs"]) > 1 else "ansi"


def short(t):
    n = str(t)
    return n.split(".", 1)[1] if n.startswith("<default>.") else n


class Folder:
    def __init__(self):
        from sqllineage.core.holders import SQLLineageHolder
        from sqllineage.core.metadata.dummy import DummyMetaDataProvider
        from sqllineage.core.parser.sqlfluff.analyzer import SqlFluffLineageAnalyzer
        self.SQLLineageHolder = SQLLineageHolder
        self.prov = DummyMetaDataProvider()
        self.analyzers = {}
        self.mk = lambda d: SqlFluffLineageAnalyzer(".", d)
        self.cache = {}

    def holder(self, s):
        key = json.dumps(s, sort_keys=True)
        if key not in self.cache:
            d = dialect_of(s)
            if d not in self.analyzers:
                self.analyzers[d] = self.mk(d)
            self.cache[key] = self.analyzers[d].analyze(render(s, d), self.prov)
        return self.cache[key]

    def holder_sql(self, sql, dialect):
        key = dialect + "\0" + sql
        if key not in self.cache:
            if dialect not in self.analyzers:
                self.analyzers[dialect] = self.mk(dialect)
            self.cache[key] = self.analyzers[dialect].analyze(sql, self.prov)
        return self.cache[key]

    def summary_of(self, holders):
        try:
            h = self.SQLLineageHolder.of(self.prov, *holders)
            g = h.table_lineage_graph
            return {"e": sorted([short(u), short(v)] for u, v in g.edges),
                    "s": sorted(short(t) for t in h.source_tables),
                    "t": sorted(short(t) for t in h.target_tables),
                    "i": sorted(short(t) for t in h.intermediate_tables), "x": "none"}
        except Exception as e:  # noqa
            return {"e": [], "s": [], "t": [], "i": [], "x": type(e).__name__}

    def fold(self, hist):
        return self.summary_of([self.holder(s) for s in hist])

    def prefixes(self, hist):
        hs = [self.holder(s) for s in hist]
        return [self.summary_of(hs[:k + 1]) for k in range(len(hs))]


def facts_of(holder):
    """per-statement facts observed on a real StatementLineageHolder, as an abstract statement event"""
    if holder.drop:
        # one event per dropped table is produced by the caller
        return [{"k": "drop", "r": [], "w": "none", "t": short(t), "pairs": [], "ordered": True} for t in sorted(holder.drop, key=str)]
    if holder.rename:
        pairs = sorted([[short(a), short(b)] for a, b in holder.rename])
        return [{"k": "ren", "r": [], "w": "none", "t": "none", "pairs": pairs, "ordered": len(pairs) == 1}]
    r = sorted(short(t) for t in holder.read)
    w = sorted(short(t) for t in holder.write)
    if not r and not w:
        return []
    if len(w) > 1:
        return [{"k": "multiwrite", "r": r, "w": "none", "t": "none", "pairs": [], "ordered": True}]
    return [{"k": "rw", "r": r, "w": w[0] if w else "none", "t": "none", "pairs": [], "ordered": True}]


def norm_summary(o):
    return {"e": sorted([list(x) for x in o["e"]]), "s": sorted(o["s"]), "t": sorted(o["t"]), "i": sorted(o["i"]), "x": o["x"]}


def runner_summary(sql, dialect="ansi"):
    from sqllineage.runner import LineageRunner
    try:
        lr = LineageRunner(sql, dialect=dialect)
        stmts = lr.statements()
        cy = lr.to_cytoscape()
        edges = sorted([short_name(e["data"]["source"]), short_name(e["data"]["target"])] for e in cy if "source" in e["data"])
        return {"e": edges, "s": sorted(short(t) for t in lr.source_tables), "t": sorted(short(t) for t in lr.target_tables),
                "i": sorted(short(t) for t in lr.intermediate_tables), "x": "none"}, stmts
    except Exception as e:  # noqa
        return {"e": [], "s": [], "t": [], "i": [], "x": type(e).__name__}, []


def short_name(n):
    return n.split(".", 1)[1] if n.startswith("<default>.") else n
