"""Projection of a canonical dump (drive.dump) into the record Graph.tla's invariants talk about."""


def _c(c):
    return {"key": c["key"], "id": c["id"], "raw": c["raw"], "owner": c["owner"], "okind": c["okind"], "ncands": len(c["cands"]),
            "oclass": c["oclass"]}


def parse_summary(text):
    sec = {"Source Tables:": "src", "Target Tables:": "tgt", "Intermediate Tables:": "mid"}
    out = {"src": [], "tgt": [], "mid": []}
    cur = None
    for line in text.split("\n"):
        if line.strip() in sec and not line.startswith(" "):
            cur = sec[line.strip()]
        elif line.startswith("    ") and cur and line.strip():
            out[cur].append(line.strip())
        elif line.strip() and not line.startswith(" "):
            cur = None
    res = {}
    for k, names in out.items():
        order = sorted(set(names))
        res[k] = [{"name": n, "rank": order.index(n)} for n in names]
    return res


def project(d):
    if d.get("exc", "none") != "none" or "nodes" not in d:
        return None
    owners = []
    notfound = [n["id"] for n in d["nodes"] if not n["found"]]
    for n in d["nodes"]:
        if n["kind"] == "Column":
            for o in n["owners_in_graph"]:
                owners.append([n["key"], o])
    if not d.get("edges_found", True):
        notfound.append("<edge endpoint>")
    xt_nodes = [e["data"]["id"] for e in d["cyto_table"] if "source" not in e["data"]]
    xt_edges = [{"id": e["data"]["id"], "s": e["data"]["source"], "t": e["data"]["target"]} for e in d["cyto_table"] if "source" in e["data"]]
    xc_cols = [{"id": e["data"]["id"], "parent": e["data"]["parent"]} for e in d["cyto_column"] if "parent" in e["data"]]
    xc_par = [e["data"]["id"] for e in d["cyto_column"] if "parent" not in e["data"] and "source" not in e["data"]]
    xc_edges = [{"id": e["data"]["id"], "s": e["data"]["source"], "t": e["data"]["target"]} for e in d["cyto_column"] if "source" in e["data"]]
    names = {}
    for c in d["col_nodes"] + [c for p in d["paths"] for c in p]:
        names.setdefault(c["oclass"], set()).add(c["owner"] if c["owner"] != "none" else "<unknown>")
    # the graph's own owner nodes print under their own name too
    for n in d["nodes"]:
        if n["kind"] == "Column":
            for o in n["owners_in_graph"]:
                names.setdefault(n["oclass"], set()).add(o)
    return {"ownernames": {k: sorted(v) for k, v in names.items()} or {"none": ["<unknown>"]},
            "paths": [[_c(c) for c in p] for p in d["paths"]],
            "cedges": [[u["key"], v["key"]] for u, v in d["col_edge_recs"]],
            "cedgeids": [[u["id"], v["id"]] for u, v in d["col_edge_recs"]],
            "cnodes": [_c(c) for c in d["col_nodes"]],
            "tnodes": d["table_nodes"], "tedges": d["table_edges"],
            "src": d["source"], "tgt": d["target"], "mid": d["intermediate"],
            "owners": owners, "notfound": notfound, "big": len(d["col_nodes"]) > 60,
            "xt": {"nodes": xt_nodes, "edges": xt_edges}, "xc": {"cols": xc_cols, "parents": xc_par, "edges": xc_edges},
            "sum": parse_summary(d["summary"])}
