"""Renderer for Col.tla programs -> SQL.  Expression forms over an item's references are a renderer dimension (the
specification treats an expression as the set of column references it contains)."""

FORMS1 = ["plain", "func", "cast", "case", "arith", "window", "paren", "coalesce", "nested"]
FORMS2 = ["arith", "func", "case", "concat", "window", "nested"]


def q(name, style=None):
    return name


def tbl_text(r, qualify=None):
    s = r["s"]
    if s == "none":
        return (qualify + "." if qualify else "") + r["n"]
    return s + "." + r["n"]


def exposed(r):
    return r["al"] if r["al"] != "none" else r["n"]


def ref_text(prog, ref, qualify=None):
    c = ref["c"]
    if ref["r"] == 0:
        return c
    if ref["r"] == 9:
        # a qualifier that names nothing in scope is taken for a table name: textual qualification qualifies it like one
        return (qualify + "." if qualify else "") + "zz." + c
    return exposed(prog["rels"][ref["r"] - 1]) + "." + c


def expr(form, refs):
    if len(refs) == 0:
        return "1"
    if len(refs) == 1:
        a = refs[0]
        if a.endswith("*"):
            return a
        return {"plain": a, "func": "upper(%s)" % a, "cast": "cast(%s as varchar)" % a,
                "case": "case when %s > 0 then %s else 0 end" % (a, a), "arith": "%s + 1" % a,
                "window": "sum(%s) over (partition by %s order by %s)" % (a, a, a), "paren": "(%s)" % a,
                "coalesce": "coalesce(%s, 0)" % a, "nested": "round(cast(coalesce(%s, 0) as decimal) * 2, 1)" % a}[form]
    a, b = refs
    return {"arith": "%s + %s" % (a, b), "func": "concat(%s, %s)" % (a, b), "case": "case when %s > 0 then %s else %s end" % (a, b, a),
            "concat": "%s || %s" % (a, b), "window": "sum(%s) over (partition by %s)" % (a, b),
            "nested": "coalesce(cast(%s as varchar), upper(%s))" % (a, b)}[form]


def render(prog, form1="plain", form2="arith", as_kw=True, qualify=None, join="join"):
    rels = prog["rels"]
    fr = []
    for i, r in enumerate(rels):
        if r["k"] == "tbl":
            t = tbl_text(r, qualify) + ((" as " if as_kw else " ") + r["al"] if r["al"] != "none" else "")
        else:
            inner = ", ".join(x["c"] + (" as " + x["al"] if x["al"] != "none" else "") for x in r["inner"])
            t = "(select %s from %s)" % (inner, tbl_text(r, qualify)) + (" as " if as_kw else " ") + r["al"]
        if i == 0:
            fr.append(t)
        elif join == "comma":
            fr.append(", " + t)
        else:
            fr.append(" %s %s on 1 = 1" % (join, t))
    its = []
    for it in prog["items"]:
        refs = [ref_text(prog, x, qualify) for x in it["refs"]]
        e = expr(form1 if len(refs) <= 1 else form2, refs)
        if len(refs) == 1 and it["al"] == "none":
            e = refs[0]          # an un-aliased single reference keeps its own name only when written plainly
        its.append(e + (" as " + it["al"] if it["al"] != "none" else ""))
    sel = "select %s from %s" % (", ".join(its), "".join(fr))
    if prog["branch2"]:
        b = prog["branch2"][0]
        sel += " union all select %s from %s" % (", ".join(b["cols"]), tbl_text(b, qualify))
    tgt = (qualify + "." if qualify else "") + "tgt"
    if prog.get("tk"):
        tgt = "s.tgt"
    if prog["kind"] == "ctas":
        return "create table %s as %s" % (tgt, sel)
    if prog["kind"] == "insert_cols":
        return "insert into %s (%s) %s" % (tgt, ", ".join(prog["collist"]), sel)
    return "insert into %s %s" % (tgt, sel)


def metadata_of(prog):
    cols = {"s.a": ["c", "d"], "s.b": ["c", "e"]}
    md = {t: cols.get(t, ["c"]) for t in prog["known"]}
    if prog.get("tk"):
        md["s.tgt"] = ["t1", "t2", "t3"][:len(prog["items"])]
    return md
