"""Renderer for Col.tla programs -> SQL.  Expression forms over an item's references are a renderer dimension (the
specification treats an expression as the set of column references it contains)."""

FORMS1 = ["plain", "func", "cast", "case", "arith", "window", "paren", "coalesce", "nested"]
FORMS2 = ["arith", "func", "case", "concat", "window", "nested"]


def q(name, style=None):
    return name


UNQUALIFY = None      # schema whose tables are written without it (the text relies on that schema being the default)


def tbl_text(r, qualify=None):
    s = r["s"]
    if s == "none":
        return (qualify + "." if qualify else "") + r["n"]
    if UNQUALIFY is not None and s == UNQUALIFY:
        return r["n"]
    return s + "." + r["n"]


def exposed(r, spell=None):
    return (spell or {}).get(r["al"], r["al"]) if r["al"] != "none" else r["n"]


def ref_text(prog, ref, qualify=None, spell=None, scalar_form="plain"):
    c = ref["c"]
    if c == "count(*)":
        return c
    if ref["r"] in (0, 7):
        return c          # 7: a name spelled like the alias of an earlier select item (lateral column alias reference)
    if ref["r"] == 8:
        # a scalar subquery over a table of its own (bare, or as the argument of a function)
        q = "(select max(zc) from %szt)" % (qualify + "." if qualify else "")
        return q if scalar_form == "plain" else "coalesce(%s, 0)" % q if scalar_form == "func" else "coalesce((%s), 0)" % q
    if ref["r"] == 9:
        # a qualifier that names nothing in scope is taken for a table name: textual qualification qualifies it like one
        return (qualify + "." if qualify else "") + "zz." + c
    return exposed(prog["rels"][ref["r"] - 1], spell) + "." + c


def cte_ok(prog):
    """derived tables can be written as CTEs read without an alias when their aliases are pairwise distinct statement-wide"""
    als = [r["al"] for r in prog["rels"] if r["k"] == "sub"]
    if prog["branch2"] and prog["branch2"][0].get("al", "none") != "none":
        als.append(prog["branch2"][0]["al"])
    # a CTE name captures every unqualified table of that name in the statement
    unq = {r["n"] for r in prog["rels"] + prog["branch2"] if r["s"] == "none"}
    return bool(als) and len(set(als)) == len(als) and not (unq & set(als))


def inner_join_ok(prog, name):
    """the name the extra inner table is read under must not clash inside the derived table (with its table's bare name)"""
    n = name.split()[-1]
    return all(r["n"] != n for r in prog["rels"] if r["k"] == "sub") and all(b["n"] != n for b in prog["branch2"])


def tree(rnd, leaves, depth):
    """a random expression tree of the given depth whose column references are exactly `leaves` (each once); the operators
    are those of the property: functions, CAST, CASE, arithmetic, concatenation, comparison, parentheses, window functions"""
    leaves = list(leaves)
    if depth == 0 or (len(leaves) <= 1 and rnd.random() < 0.15):
        if not leaves:
            return rnd.choice(["1", "0", "'x'"])
        return " + ".join(leaves)

    def split():
        if len(leaves) >= 2:
            k = rnd.randrange(1, len(leaves))
            return leaves[:k], leaves[k:]
        return (leaves, []) if rnd.random() < 0.5 else ([], leaves)
    op = rnd.choice(["paren", "func1", "func2", "cast", "bin", "bin", "case", "case_simple", "window", "neg", "cmp_case", "coalesce", "nullif"])
    if op == "paren":
        return "(%s)" % tree(rnd, leaves, depth - 1)
    if op == "func1":
        return "%s(%s)" % (rnd.choice(["upper", "abs", "max", "trim"]), tree(rnd, leaves, depth - 1))
    if op == "cast":
        return "cast(%s as %s)" % (tree(rnd, leaves, depth - 1), rnd.choice(["varchar", "int", "decimal(10, 2)"]))
    if op == "neg":
        return "- %s" % tree(rnd, leaves, depth - 1) if depth > 1 else "- (%s)" % tree(rnd, leaves, 0)
    if op == "coalesce":
        return "coalesce(%s, %s)" % (tree(rnd, leaves, depth - 1), rnd.choice(["0", "'n'"]))
    a, b = split()
    if op == "func2":
        return "%s(%s, %s)" % (rnd.choice(["concat", "greatest", "nullif"]), tree(rnd, a, depth - 1), tree(rnd, b, depth - 1))
    if op == "nullif":
        return "nullif(%s, %s)" % (tree(rnd, a, depth - 1), tree(rnd, b, depth - 1))
    if op == "bin":
        return "%s %s %s" % (tree(rnd, a, depth - 1), rnd.choice(["+", "-", "*", "/", "||"]), tree(rnd, b, depth - 1))
    if op == "case":
        return "case when %s > 0 then %s else %s end" % (tree(rnd, a, depth - 1), tree(rnd, b, depth - 1), rnd.choice(["0", "null"]))
    if op == "cmp_case":
        return "case when (%s = %s) then 1 else 0 end" % (tree(rnd, a, depth - 1), tree(rnd, b, depth - 1))
    if op == "case_simple":
        return "case %s when 1 then %s else 0 end" % (tree(rnd, a, depth - 1), tree(rnd, b, depth - 1))
    if op == "window":
        return "sum(%s) over (partition by %s)" % (tree(rnd, a, depth - 1), tree(rnd, b, depth - 1) if b else "1")
    raise ValueError(op)


def expr(form, refs):
    if form.startswith("tree:") and refs and not any(a.endswith("*") or a.startswith("(select") for a in refs):
        import random
        rnd = random.Random(form)
        return tree(rnd, refs, rnd.choice([1, 2, 3, 3]))
    if form.startswith("tree:"):
        form = "plain" if len(refs) <= 1 else "arith"
    if len(refs) == 0:
        return "1"
    if len(refs) == 1:
        a = refs[0]
        if a.endswith("*"):
            return a
        return {"plain": a, "func": "upper(%s)" % a, "cast": "cast(%s as varchar)" % a,
                "case": "case when %s > 0 then %s else 0 end" % (a, a), "arith": "%s + 1" % a,
                "window": "sum(%s) over (partition by %s order by %s)" % (a, a, a), "paren": "(%s)" % a,
                "coalesce": "coalesce(%s, 0)" % a, "nested": "round(cast(coalesce(%s, 0) as decimal) * 2, 1)" % a}[form]
    a, b = refs
    return {"arith": "%s + %s" % (a, b), "func": "concat(%s, %s)" % (a, b), "case": "case when %s > 0 then %s else %s end" % (a, b, a),
            "concat": "%s || %s" % (a, b), "window": "sum(%s) over (partition by %s)" % (a, b),
            "nested": "coalesce(cast(%s as varchar), upper(%s))" % (a, b)}[form]


def render(prog, form1="plain", form2="arith", as_kw=True, qualify=None, join="join", paren_source=False, spell=None, cte=False,
           inner_join=None, where_sub=None, merge_insert=True, scalar_form="plain", target_in_where=False, tablesample=False, unqualify=None):
    """spell: statement-local alias -> the text it is written as (renaming of statement-local names, C08);
    cte: derived tables are written as CTEs and read without an alias; inner_join: the FROM of every derived table joins one
    more table, read under that name (inner columns are then qualified with the inner table's bare name)"""
    global UNQUALIFY
    UNQUALIFY = unqualify
    rels = prog["rels"]
    sp = spell or {}
    cte = cte if (cte == "aliased" and any(r["k"] == "sub" for r in rels + [dict(b, k="sub") for b in prog["branch2"] if b.get("al", "none") != "none"])) else (cte and cte_ok(prog))
    if inner_join and not inner_join_ok(prog, inner_join):
        inner_join = None
    ctes = []

    def sub_text(r, cols):
        if inner_join:
            return "select %s from %s join s.zj %s on 1 = 1" % (", ".join(r["n"] + "." + c for c in cols), tbl_text(r, qualify), inner_join)
        return "select %s from %s" % (", ".join(cols), tbl_text(r, qualify))
    fr = []
    for i, r in enumerate(rels):
        if r["k"] == "tbl":
            t = tbl_text(r, qualify) + ((" as " if as_kw else " ") + sp.get(r["al"], r["al"]) if r["al"] != "none" else "")
            if tablesample:
                t += " tablesample bernoulli (10)"      # a clause that SQL puts after the alias
        else:
            body = sub_text(r, [x["c"] + (" as " + x["al"] if x["al"] != "none" else "") for x in r["inner"]])
            if cte == "aliased":
                # the CTE has a name of its own and is read through the alias
                ctes.append("zc%d as (%s)" % (i + 1, body))
                t = "zc%d" % (i + 1) + (" as " if as_kw else " ") + sp.get(r["al"], r["al"])
            elif cte:
                ctes.append("%s as (%s)" % (sp.get(r["al"], r["al"]), body))
                t = sp.get(r["al"], r["al"])
            else:
                t = "(%s)" % body + (" as " if as_kw else " ") + sp.get(r["al"], r["al"])
        if i == 0:
            fr.append(t)
        elif join == "comma":
            fr.append(", " + t)
        else:
            fr.append(" %s %s on 1 = 1" % (join, t))
    its = []
    for it in prog["items"]:
        refs = [ref_text(prog, x, qualify, sp, scalar_form) for x in it["refs"]]
        e = expr(form1 if len(refs) <= 1 else form2, refs)
        if len(refs) == 1 and it["al"] == "none":
            e = refs[0]          # an un-aliased single reference keeps its own name only when written plainly
        its.append(e + (" as " + it["al"] if it["al"] != "none" else ""))
    if prog["kind"] == "merge":
        # both arms carry the same assignments; the insert arm only when every item names a column of its own
        names, exprs = [], []
        for it, e in zip(prog["items"], its):
            names.append(it["al"] if it["al"] != "none" else it["refs"][0]["c"])
            exprs.append(e[:-len(" as " + it["al"])] if it["al"] != "none" else e)
        src = "".join(fr)
        on = "tgt.zid = %s.zid" % exposed(rels[0], sp)
        out = "%smerge into %stgt using %s on %s when matched then update set %s" % (
            "with " + ", ".join(ctes) + " " if ctes else "", qualify + "." if qualify else "", src, on,
            ", ".join("%s = %s" % (n, e) for n, e in zip(names, exprs)))
        if merge_insert:
            out += " when not matched then insert (%s) values (%s)" % (", ".join(names), ", ".join(exprs))
        return out
    if prog["kind"] == "update":
        # UPDATE tgt SET name = expression FROM relations [WHERE tgt.zid IN (SELECT zid FROM s.zq <a name of the outer scope>)]
        sets = []
        for it, e in zip(prog["items"], its):
            name = it["al"] if it["al"] != "none" else it["refs"][0]["c"]
            sets.append("%s = %s" % (name, e[:-len(" as " + it["al"])] if it["al"] != "none" else e))
        w = " where tgt.zid in (select zid from s.zq %s)" % where_sub if where_sub else ""
        return "%supdate %stgt set %s from %s%s" % ("with " + ", ".join(ctes) + " " if ctes else "", qualify + "." if qualify else "",
                                                 ", ".join(sets), "".join(fr), w)
    sel = "select %s from %s" % (", ".join(its), "".join(fr))
    if target_in_where and not prog["branch2"] and prog["kind"] in ("insert", "insert_cols"):
        # the incremental-load idiom: the target is read as well, INSERT INTO tgt SELECT ... WHERE 1 NOT IN (SELECT zc FROM tgt)
        sel += " where 1 not in (select zc from %s)" % ("s.tgt" if prog.get("tk") else (qualify + "." if qualify else "") + "tgt")
    if prog["branch2"]:
        b = prog["branch2"][0]
        if b.get("al", "none") != "none" and cte == "aliased":
            ctes.append("zc9 as (%s)" % sub_text(b, b["cols"]))
            sel += " union all select %s from zc9 %s" % (", ".join(b["cols"]), sp.get(b["al"], b["al"]))
        elif b.get("al", "none") != "none" and cte:
            ctes.append("%s as (%s)" % (sp.get(b["al"], b["al"]), sub_text(b, b["cols"])))
            sel += " union all select %s from %s" % (", ".join(b["cols"]), sp.get(b["al"], b["al"]))
        elif b.get("al", "none") != "none":
            sel += " union all select %s from (%s) as %s" % (", ".join(b["cols"]), sub_text(b, b["cols"]), sp.get(b["al"], b["al"]))
        else:
            sel += " union all select %s from %s" % (", ".join(b["cols"]), tbl_text(b, qualify))
    tgt = (qualify + "." if qualify else "") + "tgt"
    if prog.get("tk"):
        tgt = "tgt" if unqualify == "s" else "s.tgt"
    if paren_source and prog["kind"] != "ctas" and not ctes:
        sel = "(" + sel + ")"           # INSERT INTO t (SELECT ...): a parenthesised source query
    w = "with " + ", ".join(ctes) + " " if ctes else ""
    if prog["kind"] == "ctas":
        return "create table %s as %s%s" % (tgt, w, sel)
    if prog["kind"] == "insert_cols":
        return "%sinsert into %s (%s) %s" % (w, tgt, ", ".join(prog["collist"]), sel)
    return "%sinsert into %s %s" % (w, tgt, sel)


def metadata_of(prog):
    cols = {"s.a": ["c", "d"], "s.b": ["c", "e"]}
    md = {t: cols.get(t, ["c"]) for t in prog["known"]}
    if prog.get("tk"):
        md["s.tgt"] = ["t1", "t2", "t3"][:len(prog["items"])]
    return md
