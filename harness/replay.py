"""./check <ID> --replay <file>: re-run the input of a recorded violation against the code as it is now and print what the code
answers next to what was recorded.  The verdict itself is the business of the check (run ./check <ID>); this is the tool to
look at one case."""
import json
import os
import sys

from harness import REPO


def replay(path):
    d = json.load(open(path))
    r = d.get("replay", {})
    print("property=%s tier=%s seed=%s" % (d.get("property"), d.get("tier"), d.get("seed")))
    print("signature:", json.dumps(d.get("signature"), sort_keys=True))
    for k in ("verdict", "clause", "how", "detail"):
        if k in r:
            print("%s: %s" % (k, r[k]))
    sql = r.get("sql") or r.get("script") or r.get("text")
    if isinstance(sql, str):
        sys.path.insert(0, REPO)
        os.chdir("/tmp")
        from sqllineage.core.metadata.dummy import DummyMetaDataProvider
        from sqllineage.runner import LineageRunner
        kw = {}
        if r.get("metadata"):
            kw["metadata_provider"] = DummyMetaDataProvider(r["metadata"])
        print("sql    :", sql)
        print("dialect:", r.get("dialect", "ansi"), " metadata:", r.get("metadata"))
        try:
            lr = LineageRunner(sql, dialect=r.get("dialect", "ansi"), **kw)
            print("source tables      :", sorted(str(t) for t in lr.source_tables))
            print("target tables      :", sorted(str(t) for t in lr.target_tables))
            print("intermediate tables:", sorted(str(t) for t in lr.intermediate_tables))
            for p in sorted(" -> ".join(str(c) for c in p) for p in lr.get_column_lineage()):
                print("column path        :", p)
        except Exception as e:  # noqa
            print("raises:", type(e).__name__, str(e)[:300])
    for k, v in r.items():
        if k not in ("sql", "script", "text", "dialect", "metadata", "verdict", "clause", "how", "detail"):
            print("recorded %s: %s" % (k, json.dumps(v)[:2000]))
    return 0
