"""Inputs shared by the result-level checks (C06, C18, C11, ...): the harvested corpus and scripts rendered from
TLC-generated histories of Script.tla."""
import os
import random

from . import tlc


def corpus_items():
    from . import corpus
    return [{"sql": c["sql"], "dialect": c["dialect"], "metadata": c["metadata"], "origin": c["origin"]} for c in corpus.harvest()]


def script_items(chk, n, seed, maxlen=4):
    """scripts of 2..maxlen statements rendered from histories that TLC enumerates/simulates from Script.tla"""
    from . import script_drv as d
    cfg = tlc.write_cfg(os.path.join(chk.work, "inputs_script.cfg"),
                        constants=dict(TableSeq="<- TS4", MaxLen=maxlen + 2, MaxPairs=2, Known=set(), Emit=True, ColumnLess=True),
                        invariants=["EmitCase"])
    r = chk.tlc("MC_Script", cfg, "inputs: simulated histories", workers=1, coverage=False,
                simulate="num=%d" % max(3, n // 4), depth=maxlen + 3, seed=seed)
    cs = [c for c in r.cases("CASE") if len(c["h"]) >= 2]
    rnd = random.Random(seed)
    rnd.shuffle(cs)
    out = []
    for c in cs[:n]:
        dia = "mysql" if any(d.dialect_of(s) == "mysql" for s in c["h"]) else "ansi"
        out.append({"sql": ";\n".join(d.render(s, dia) for s in c["h"]), "dialect": dia, "metadata": None, "origin": "Script.tla"})
    return out
