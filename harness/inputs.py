"""Inputs shared by the result-level checks (C06, C18, C11, ...): the harvested corpus and scripts rendered from
TLC-generated histories of Script.tla."""
import os
import random

from . import tlc


def corpus_items():
    from . import corpus
    return [{"sql": c["sql"], "dialect": c["dialect"], "metadata": c["metadata"], "origin": c["origin"]} for c in corpus.harvest()]


def script_items(chk, n, seed, maxlen=4):
    """scripts of 2..maxlen statements rendered from histories that TLC enumerates/simulates from Script.tla"""
    from . import script_drv as d
    cfg = tlc.write_cfg(os.path.join(chk.work, "inputs_script.cfg"),
                        constants=dict(TableSeq="<- TS4", MaxLen=maxlen + 2, MaxPairs=2, Known=set(), Emit=True, ColumnLess=True),
                        invariants=["EmitCase"])
    r = chk.tlc("MC_Script", cfg, "inputs: simulated histories", workers=1, coverage=False,
                simulate="num=%d" % max(3, n // 4), depth=maxlen + 3, seed=seed)
    cs = [c for c in r.cases("CASE") if len(c["h"]) >= 2]
    rnd = random.Random(seed)
    rnd.shuffle(cs)
    out = []
    for c in cs[:n]:
        dia = "mysql" if any(d.dialect_of(s) == "mysql" for s in c["h"]) else "ansi"
        out.append({"sql": ";\n".join(d.render(s, dia) for s in c["h"]), "dialect": dia, "metadata": None, "origin": "Script.tla"})
    return out


def col_items(chk, n, seed):
    """single statements rendered from programs that TLC simulates from Col.tla (every statement kind, derived tables, UNION, scalar
    subqueries, count(*), expression trees, metadata for the known tables)"""
    from . import render_col
    from .mods import c02
    cfg = c02.cfg(chk, "inputs_col", Emit=True, MaxRels=3, MaxItems=3, MaxRefs=2, TAliases={"x", "y"}, SAliases={"u", "v"}, WithUnion=True,
                  WithLiteral=True, WithForeign=True, WithMeta=True, invariants=["EmitCase"])
    r = chk.tlc("Col", cfg, "inputs: simulated column-level programs", workers=1, coverage=False, simulate="num=%d" % max(50, n), depth=12, seed=seed)
    rnd = random.Random(seed)
    seen, out = set(), []
    for c in r.cases("CASE"):
        k = str(c["prog"])
        if k in seen:
            continue
        seen.add(k)
        if any(rf["r"] == 9 for it in c["prog"]["items"] for rf in it["refs"]):
            continue        # a qualifier that names nothing in scope: the documented fallback invents a table, not a well-formed statement
        try:
            sql = render_col.render(c["prog"], form1="tree:%d" % rnd.randrange(1 << 30), form2="tree:%d" % rnd.randrange(1 << 30),
                                    cte=rnd.choice([False, False, True, "aliased"]), scalar_form=rnd.choice(["plain", "func", "func2"]))
        except Exception:  # noqa
            continue
        md = render_col.metadata_of(c["prog"])
        out.append({"sql": sql, "dialect": "ansi", "metadata": md or None, "origin": "Col.tla"})
        if len(out) >= n:
            break
    return out
