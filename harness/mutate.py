"""Seeded string mutator for C10: corpus / generated statements under token deletion, duplication, swap, insertion,
cross-over, bracket nesting, templating and quoting metacharacters."""
import re

TOK = re.compile(r"\s+|[A-Za-z_][A-Za-z_0-9]*|\d+|'[^']*'|\"[^\"]*\"|`[^`]*`|.", re.S)
META = ["{{", "}}", "{%", "%}", "{#", "'", '"', "`", "[", "]", "(", ")", ";", "--", "/*", "*/", "\\", "$$", "::", "@", "#", "?", "%s", "\x00", "é",
        "select", "from", "into", "union", "with", "join", "on", "as", ",", ".", "*", "case", "when", "end", "values", "set", "using"]


def toks(s):
    return TOK.findall(s)


def mutate(rnd, base, other):
    t = toks(base)
    n = rnd.choice([1, 1, 1, 2, 3])
    for _ in range(n):
        if not t:
            break
        op = rnd.randrange(8)
        i = rnd.randrange(len(t))
        if op == 0:
            del t[i]
        elif op == 1:
            t.insert(i, t[i])
        elif op == 2 and len(t) > 1:
            j = rnd.randrange(len(t))
            t[i], t[j] = t[j], t[i]
        elif op == 3:
            t.insert(i, rnd.choice(META))
        elif op == 4:
            o = toks(other)
            if o:
                j = rnd.randrange(len(o))
                t = t[:i] + o[j:]
        elif op == 5:
            k = rnd.randrange(1, 31)
            t = t[:i] + ["("] * k + t[i:i + 1] + [")"] * k + t[i + 1:]
        elif op == 6:
            t = t[:i]
        else:
            t[i] = rnd.choice(META)
    return "".join(t)
