"""Shared plumbing for every check: work dir, evidence, known findings, verdict printing, exit codes."""
import hashlib
import json
import os
import shutil
import sys
import time

from . import tlc
from .tlc import MachineryError  # noqa: F401

VERIF = tlc.VERIF
# a trial against a scratch tree (VERIF_REPO) must not overwrite the evidence of /repo: it names its own output directories
EVIDENCE = os.environ.get("VERIF_EVIDENCE_DIR") or os.path.join(VERIF, "evidence")
REPLAYS = os.environ.get("VERIF_REPLAYS_DIR") or os.path.join(VERIF, "replays")
FINDINGS_FILE = os.path.join(VERIF, "known_findings.json")
LEVEL = "model_checking"


def load_findings():
    with open(FINDINGS_FILE) as f:
        return json.load(f)["findings"]


class Check:
    """One run of one property's check."""

    def __init__(self, pid, tier, seed):
        self.pid = pid
        self.tier = tier
        self.seed = seed
        self.t0 = time.time()
        shutil.rmtree(os.path.join(REPLAYS, pid), ignore_errors=True)
        self.work = os.path.join(tlc.WORK, "%s_%d" % (pid, os.getpid()))
        shutil.rmtree(self.work, ignore_errors=True)
        os.makedirs(self.work, exist_ok=True)
        self.cov = {"states": 0, "transitions": 0, "traces_validated_against_impl": 0, "samples": [],
                    "evaluations": 0, "distinct_nontrivial": 0, "rule": "", "exhaustive": False,
                    "tlc_runs": [], "actions": {}, "model_drift": 0, "known_finding_instances": {},
                    "self_tests": []}
        self.assumptions = []
        self.violations = []          # dicts written to replay files
        self.known_hits = {}          # finding id -> [count, what]
        self.findings = [f for f in load_findings() if pid in f.get("properties", [f.get("property")])]
        self._distinct = set()
        self.notes = []

    # ---- TLC bookkeeping
    def tlc(self, module, cfg, label, **kw):
        r = tlc.run(module, cfg, self.work, **kw)
        self.cov["states"] += r.distinct
        self.cov["transitions"] += r.generated
        self.cov["tlc_runs"].append({"label": label, "module": module, "cfg": os.path.basename(cfg),
                                     "generated": r.generated, "distinct": r.distinct, "depth": r.depth,
                                     "violated": r.violated, "wall_s": round(r.wall, 2)})
        for a, (taken, dist) in r.coverage.items():
            old = self.cov["actions"].get(a, 0)
            self.cov["actions"][a] = old + taken
        return r

    def require_actions(self, names):
        """vacuity guard: every named action must have been taken at least once in some TLC run of this check"""
        missing = [n for n in names if self.cov["actions"].get(n, 0) == 0]
        if missing:
            raise MachineryError("actions never taken (vacuous configuration): %s" % missing)

    # ---- case accounting
    def count(self, key, nontrivial=True):
        """one evaluation; key identifies the case for distinctness"""
        self.cov["evaluations"] += 1
        if nontrivial:
            h = hashlib.sha1(json.dumps(key, sort_keys=True, default=str).encode()).digest()[:10]
            if h not in self._distinct:
                self._distinct.add(h)
                self.cov["distinct_nontrivial"] += 1

    def sample(self, x, limit=6):
        if len(self.cov["samples"]) < limit:
            self.cov["samples"].append(x)

    def self_test(self, name, ok, detail=""):
        self.cov["self_tests"].append({"name": name, "detected": bool(ok), "detail": detail})
        if not ok:
            raise MachineryError("self-test %s did not fail as required: %s" % (name, detail))

    # ---- verdicts
    def match_finding(self, signature):
        """signature: dict describing a rejected execution; returns the known finding that lists it, or None.
        A finding matches when every key of its "match" equals the signature's value (lists: membership)."""
        for f in self.findings:
            if f.get("status") != "known":
                continue
            m = f.get("match", {})
            ok = True
            for k, v in m.items():
                if k.endswith("_include"):
                    if v not in (signature.get(k[:-len("_include")]) or []):
                        ok = False
                        break
                    continue
                sv = signature.get(k)
                if isinstance(v, list):
                    if isinstance(sv, list):
                        if not set(sv) <= set(v) or not sv:
                            ok = False
                    elif sv not in v:
                        ok = False
                elif sv != v:
                    ok = False
                if not ok:
                    break
            if ok and m:
                return f
        return None

    def reject(self, signature, replay):
        """an execution the ideal layer rejected: known finding or violation"""
        f = self.match_finding(signature)
        if f is not None:
            hit = self.known_hits.setdefault(f["id"], [0, f["what"], replay])
            hit[0] += 1
            return "known"
        self.violations.append({"signature": signature, "replay": replay})
        return "violation"

    def known_deviation(self, dev, replay):
        """a fired deviation of the machine layer: is it a listed (status known) finding?"""
        for f in self.findings:
            if f.get("status") == "known" and f.get("match", {}).get("deviation") == dev:
                hit = self.known_hits.setdefault(f["id"], [0, f["what"], replay])
                hit[0] += 1
                return True
        return False

    def drift(self, n=1):
        self.cov["model_drift"] += n

    def finish(self):
        os.makedirs(EVIDENCE, exist_ok=True)
        rc = 0
        for fid, (n, what, _) in sorted(self.known_hits.items()):
            print("KNOWN-FINDING: property=%s %s %s (%d instances)" % (self.pid, fid, what, n))
            self.cov["known_finding_instances"][fid] = n
        if self.cov["model_drift"]:
            print("MODEL-DRIFT: property=%s %d executions differ from the machine layer but are accepted by the ideal layer"
                  % (self.pid, self.cov["model_drift"]))
        if self.violations:
            sigs = {}
            for v in self.violations:
                k = json.dumps(v["signature"], sort_keys=True, default=str)
                sigs[k] = sigs.get(k, 0) + 1
            self.cov["violation_signatures"] = [{"signature": json.loads(k), "count": n} for k, n in sorted(sigs.items(), key=lambda x: -x[1])[:40]]
            # one replay file per distinct signature first, so that every kind of violation has a witness on disk
            first = {}
            for v in self.violations:
                first.setdefault(json.dumps(v["signature"], sort_keys=True, default=str), v)
            self.n_violations = len(self.violations)
            self.violations = list(first.values()) + [v for v in self.violations if v not in first.values()][:max(0, 50 - len(first))]
            rc = 1
            d = os.path.join(REPLAYS, self.pid)
            os.makedirs(d, exist_ok=True)
            seen = set()
            for i, v in enumerate(self.violations[:50]):
                key = json.dumps(v["signature"], sort_keys=True, default=str)
                if key in seen and i > 5:
                    continue
                seen.add(key)
                p = os.path.join(d, "%s_%s_%d_%d.json" % (self.pid, self.tier, self.seed, i))
                with open(p, "w") as f:
                    json.dump({"property": self.pid, "tier": self.tier, "seed": self.seed, **v}, f, indent=1, default=str)
                print("VIOLATION property=%s replay=%s" % (self.pid, p))
        ev = {"property_id": self.pid, "tier": self.tier, "seed": self.seed, "level": LEVEL,
              "coverage": self.cov, "assumptions": self.assumptions, "wall_s": round(time.time() - self.t0, 2),
              "violations": getattr(self, "n_violations", len(self.violations))}
        if not self.cov["samples"]:
            self.cov["samples"].append("none recorded")
        with open(os.path.join(EVIDENCE, self.pid + ".json"), "w") as f:
            json.dump(ev, f, indent=1, default=str)
        shutil.rmtree(self.work, ignore_errors=True)
        shutil.rmtree("/dev/shm/verif_tlc_%d" % os.getpid(), ignore_errors=True)
        print("%s %s: states=%d transitions=%d traces=%d evaluations=%d distinct=%d violations=%d known=%d wall=%.1fs" % (
            self.pid, self.tier, self.cov["states"], self.cov["transitions"], self.cov["traces_validated_against_impl"],
            self.cov["evaluations"], self.cov["distinct_nontrivial"], len(self.violations),
            sum(v[0] for v in self.known_hits.values()), time.time() - self.t0))
        return rc


def validate_traces(chk, module, cfg, traces, label, workers=1, timeout=1800, parallel=None):
    """Batch trace validation: write traces as JSON arrays, run Trace_<module> (several TLC processes side by side, each with
    one worker so that printed verdict lines stay whole), return {tid: (line, verdict)}; tid is the 1-based index into traces."""
    if not traces:
        return {}
    import threading
    n = parallel or (4 if len(traces) >= 6000 else 1)
    size = (len(traces) + n - 1) // n
    parts = [(off, traces[off:off + size]) for off in range(0, len(traces), size)]
    results = {}
    errors = []
    lock = threading.Lock()

    def one(pi, off, part):
        path = os.path.join(chk.work, "traces_%s_%d_%d.json" % (label, pi, len(os.listdir(chk.work))))
        with open(path, "w") as f:
            json.dump(part, f)
        try:
            r = tlc.run(module, cfg, chk.work, workers=workers, timeout=timeout, env={"TRACE_FILE": path}, coverage=False, heap="3g")
        except Exception as e:  # noqa
            errors.append(e)
            return
        got = {}
        for t in r.tuples:
            if t[0] == "VERDICT":
                got[int(t[1])] = (int(t[2]), t[3])
        if len(got) != len(part):
            errors.append(MachineryError("trace validation %s: %d verdicts for %d traces\n%s" % (label, len(got), len(part), r.out[-2000:])))
            return
        with lock:
            for k, v in got.items():
                results[off + k] = v
            chk.cov["states"] += r.distinct
            chk.cov["transitions"] += r.generated
            chk.cov["tlc_runs"].append({"label": "trace:%s[%d]" % (label, pi), "module": module, "cfg": os.path.basename(cfg), "generated": r.generated,
                                        "distinct": r.distinct, "depth": r.depth, "violated": r.violated, "wall_s": round(r.wall, 2)})
        os.remove(path)
    ths = [threading.Thread(target=one, args=(pi, off, part)) for pi, (off, part) in enumerate(parts)]
    for t in ths:
        t.start()
    for t in ths:
        t.join()
    if errors:
        raise errors[0] if isinstance(errors[0], MachineryError) else MachineryError(str(errors[0]))
    chk.cov["traces_validated_against_impl"] += len(traces)
    return results


def main_wrapper(fn, pid, tier, seed):
    try:
        chk = Check(pid, tier, seed)
        fn(chk)
        rc = chk.finish()
    except MachineryError as e:
        print("MACHINERY-ERROR property=%s %s" % (pid, e))
        rc = 2
    sys.exit(rc)
