import os

# the tree under verification: /repo, unless a background run points the harness at a snapshot of it
REPO = os.environ.get("VERIF_REPO") or "/repo"
