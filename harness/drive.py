"""Run the real LineageRunner and return a canonical dump of everything the public API shows.
Projection only - no expectations live here.  Import from worker processes (cwd should be a scratch dir)."""
from harness import REPO as _REPO
import hashlib
import re
import sys
import warnings

if _REPO not in sys.path:
    sys.path.insert(0, _REPO)

_SQ = re.compile(r"subquery_-?\d+")


def _node_kind(n):
    return type(n).__name__ if not isinstance(n, str) else "Alias"


def _okey(p):
    if p is None:
        return "none"
    raw = getattr(p, "query_raw", None)
    if raw is not None:
        return "%s#%s" % (p, hashlib.sha1(str(raw).encode()).hexdigest()[:6])
    return str(p)


def _oclass(p):
    if p is None:
        return "none"
    raw = getattr(p, "query_raw", None)
    if raw is not None:
        return "sq#" + hashlib.sha1(str(raw).encode()).hexdigest()[:10]
    return type(p).__name__[0] + ":" + str(p)


def col_rec(c):
    p = c.parent
    return {"id": str(c), "raw": c.raw_name, "owner": str(p) if p is not None else "none",
            "okind": _node_kind(p) if p is not None else "none",
            "cands": [str(x) for x in c.parent_candidates], "key": "%s@%s" % (c, _okey(p)), "oclass": _oclass(p)}


def served_exports(sql, dialect, provider, warm=None):
    """the exports as the web application serves them: POST /lineage on the real WSGI app"""
    import io
    import json as _json
    import sqllineage.drawing as drawing
    app = drawing.app
    saved = getattr(app, "metadata_provider", None)
    app.metadata_provider = provider
    try:
        if warm:
            # the same text asked under another dialect first (what the dialect menu of the page does)
            b0 = _json.dumps({"e": sql, "dialect": warm})
            try:
                list(app({"REQUEST_METHOD": "POST", "PATH_INFO": "/lineage", "CONTENT_LENGTH": len(b0), "wsgi.input": io.StringIO(b0)},
                         lambda status, headers: None))
            except Exception:  # noqa
                pass
        body = _json.dumps({"e": sql, "dialect": dialect})
        holder = {}
        out = app({"REQUEST_METHOD": "POST", "PATH_INFO": "/lineage", "CONTENT_LENGTH": len(body), "wsgi.input": io.StringIO(body)},
                  lambda status, headers: holder.update(status=status))
        text = b"".join(x if isinstance(x, bytes) else str(x).encode() for x in out).decode("utf-8")
        if not holder.get("status", "").startswith("200"):
            raise RuntimeError("served: " + holder.get("status", "?"))
        data = _json.loads(text)
        return data["dag"], data["column"]
    finally:
        app.metadata_provider = saved


def dump(sql, dialect="ansi", metadata=None, silent=False, verbose=False, want_graph=True, provider=None, pre_calls=(), served=False, warm=None):
    """metadata: dict 'schema.table' -> [cols] (DummyMetaDataProvider) or None"""
    from sqllineage.core.metadata.dummy import DummyMetaDataProvider
    from sqllineage.core.models import Column, Path, SubQuery, Table
    from sqllineage.runner import LineageRunner
    from sqllineage.utils.constant import LineageLevel
    out = {"exc": "none", "msg": "", "warnings": []}
    with warnings.catch_warnings(record=True) as ws:
        warnings.simplefilter("always")
        try:
            kw = {}
            if provider is not None:
                kw["metadata_provider"] = provider
            elif metadata is not None:
                kw["metadata_provider"] = DummyMetaDataProvider(metadata)
            lr = LineageRunner(sql, dialect=dialect, silent_mode=silent, verbose=verbose, **kw)
            for kw in pre_calls:
                # other views of the same runner asked first (accessors can be called in any order, any number of times)
                if kw == "cytoscape_column":
                    lr.to_cytoscape(LineageLevel.COLUMN)
                elif kw == "cytoscape_table":
                    lr.to_cytoscape()
                elif kw == "str":
                    str(lr)
                else:
                    lr.get_column_lineage(**kw)
            out["statements"] = list(lr.statements())
            out["source"] = [str(t) for t in lr.source_tables]
            out["target"] = [str(t) for t in lr.target_tables]
            out["intermediate"] = [str(t) for t in lr.intermediate_tables]
            paths = lr.get_column_lineage()
            out["paths"] = [[col_rec(c) for c in p] for p in paths]
            out["cyto_table"] = lr.to_cytoscape()
            out["cyto_column"] = lr.to_cytoscape(LineageLevel.COLUMN)
            if served:
                # what a client of the web application gets for the same text (an equal provider of its own)
                from sqllineage.core.metadata.dummy import DummyMetaDataProvider as _D
                out["cyto_table"], out["cyto_column"] = served_exports(sql, dialect, _D(metadata) if metadata is not None else _D(), warm)
            out["summary"] = str(lr)
            if want_graph:
                h = getattr(lr, "_sql_holder", None)
                if h is not None:
                    g = h.graph
                    tg = h.table_lineage_graph
                    cg = h.column_lineage_graph
                    nodes = []
                    for n in list(g.nodes):
                        rec = {"id": str(n), "kind": _node_kind(n), "found": bool(g.has_node(n))}
                        if isinstance(n, Column):
                            rec.update(col_rec(n))
                            rec["owners_in_graph"] = sorted(str(u) for u, _, d in g.in_edges(n, data=True) if d.get("type") == "has_column")
                        nodes.append(rec)
                    out["nodes"] = nodes
                    out["table_edges"] = sorted([str(u), str(v)] for u, v in tg.edges)
                    out["table_nodes"] = sorted(str(n) for n in tg.nodes)
                    out["col_edges"] = sorted([str(u), str(v)] for u, v in cg.edges)
                    out["col_edge_recs"] = [[col_rec(u), col_rec(v)] for u, v in cg.edges]
                    out["col_nodes"] = [col_rec(n) for n in cg.nodes]
                    out["edges_found"] = all(g.has_node(u) and g.has_node(v) for u, v in g.edges)
                    # canonical names for anonymous subqueries
                    ren = {}
                    for n in g.nodes:
                        if isinstance(n, SubQuery) and _SQ.fullmatch(str(n)):
                            ren[str(n)] = "subquery_" + hashlib.sha1(n.query_raw.encode()).hexdigest()[:8]
                    out["_ren"] = ren
        except BaseException as e:  # noqa
            if isinstance(e, (KeyboardInterrupt, SystemExit)):
                raise
            out["exc"] = type(e).__name__
            out["exc_mro"] = [c.__name__ for c in type(e).__mro__]
            out["msg"] = str(e)[:300]
        out["warnings"] = sorted("%s:%s" % (w.category.__name__, str(w.message)[:80]) for w in ws)
    ren = out.pop("_ren", {})
    out = _canon(out, ren)
    if ren:
        # the generated names of anonymous subqueries vary with the hash seed, and with them the order of anything sorted by
        # name: after renaming, bring name-ordered lists into the order of the canonical names (edge ids follow that order)
        import json as _json
        for k in ("cyto_table", "cyto_column"):
            if k in out:
                def _noid(e):
                    return _json.dumps(dict(e, data={a: b for a, b in e["data"].items() if a != "id"}) if "source" in e["data"] else e,
                                       sort_keys=True)
                ents = sorted(out[k], key=_noid)
                eids = [e["data"]["id"] for e in ents if "source" in e["data"]]
                if sorted(eids) == sorted("e%d" % i for i in range(len(eids))):
                    # edge ids are positions in the name-sorted edge list: re-issue them in canonical order.  Anything else
                    # (a duplicate, a foreign id) is left exactly as the code produced it
                    i = 0
                    for j, e in enumerate(ents):
                        if "source" in e["data"]:
                            ents[j] = dict(e, data=dict(e["data"], id="e%d" % i))
                            i += 1
                out[k] = ents
        for k in ("col_edges", "table_edges", "table_nodes"):
            if k in out:
                out[k] = sorted(out[k])
        if "paths" in out:
            out["paths"] = sorted(out["paths"], key=lambda p: _json.dumps(p, sort_keys=True))
    return out


def _canon(x, ren):
    if isinstance(x, str):
        if "subquery_" in x:
            def sub(m):
                return ren.get(m.group(0), "subquery_anon")
            return _SQ.sub(sub, x)
        return x
    if isinstance(x, list):
        return [_canon(y, ren) for y in x]
    if isinstance(x, dict):
        return {k: _canon(v, ren) for k, v in x.items()}
    return x


def pairs(d):
    """end-to-end (source, target) column pairs of a dump"""
    out = set()
    for p in d.get("paths", []):
        s, t = p[0], p[-1]
        src = (s["owner"], s["raw"]) if s["owner"] != "none" else ("?" + "|".join(s["cands"]), s["raw"])
        out.add((src, (t["owner"], t["raw"]), len(p)))
    return out
