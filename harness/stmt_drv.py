"""Run one statement through the real LineageRunner and project table-level (and column-level) results."""
from harness import REPO as _REPO
import sys
import warnings

if _REPO not in sys.path:
    sys.path.insert(0, _REPO)
_parsers = {}


def accepts(sql, dialect):
    """does the parser itself (not sqllineage) accept the text under this dialect?"""
    from sqlfluff.core import Linter, SQLLexError, SQLParseError
    if dialect not in _parsers:
        _parsers[dialect] = Linter(dialect=dialect)
    parsed = _parsers[dialect].parse_string(sql)
    if any(isinstance(e, (SQLLexError, SQLParseError)) for e in parsed.violations):
        return False
    return bool(parsed.parsed_variants)      # templating failed: nothing was parsed


def tables(sql, dialect="ansi", metadata=None):
    from sqllineage.runner import LineageRunner
    warnings.simplefilter("ignore")
    try:
        kw = {}
        if metadata is not None:
            from sqllineage.core.metadata.dummy import DummyMetaDataProvider
            kw["metadata_provider"] = DummyMetaDataProvider(metadata)
        lr = LineageRunner(sql, dialect=dialect, **kw)
        return {"reads": [str(t) for t in lr.source_tables], "target": [str(t) for t in lr.target_tables],
                "mid": [str(t) for t in lr.intermediate_tables], "exc": "none"}
    except Exception as e:  # noqa
        return {"reads": [], "target": [], "mid": [], "exc": type(e).__name__}
