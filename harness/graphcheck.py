"""C06 / C18: every result is projected and decided by Trace_Graph (invariants of Graph.tla)."""
import copy
import multiprocessing as mp
import os

from . import core, tlc


def _dump_chunk(items):
    import os as _os
    _os.chdir("/tmp")
    from . import drive, graph_proj
    out = []
    for it in items:
        d = drive.dump(it["sql"], it["dialect"], metadata=it["metadata"], pre_calls=it.get("pre_calls", ()), served=it.get("served", False), warm=it.get("warm"))
        p = graph_proj.project(d)
        extra = None
        if p is not None:
            ids = [q["id"] for q in p["xc"]["cols"]] + p["xc"]["parents"]
            dup = sorted({i for i in ids if ids.count(i) > 1})
            keys = {}
            for c in d["col_nodes"]:
                keys.setdefault(c["id"], set()).add(c["key"])
                keys.setdefault(c["owner"], set()).add(c["oclass"])
            extra = {"dup_ids": dup,
                     "dup_cause": "distinct_nodes_same_name" if dup and all(len(keys.get(i, ())) > 1 for i in dup) else ("other" if dup else "none"),
                     "exc": d["exc"]}
        out.append((p, extra, d["exc"]))
    return out


def chunks(xs, n):
    k = max(1, (len(xs) + n - 1) // n)
    return [xs[i:i + k] for i in range(0, len(xs), k)]


def run(chk, which, items):
    from . import features
    PRE = [(), ({"exclude_path_ending_in_subquery": False},), ({"exclude_subquery_columns": True},), ("cytoscape_column", "str"),
           ({"exclude_path_ending_in_subquery": False, "exclude_subquery_columns": True}, "cytoscape_table")]
    if which == "C18":
        # texts that analyse differently under two dialects, asked from the web application under one and then the other
        items = list(items) + [
            {"sql": 'insert into tgt select "Id" from src', "dialect": "mysql", "warm": "ansi", "metadata": None, "origin": "pinned"},
            {"sql": 'insert into tgt select "Id" from src', "dialect": "ansi", "warm": "mysql", "metadata": None, "origin": "pinned"},
            {"sql": "select a into tgt from src", "dialect": "postgres", "warm": "mysql", "metadata": None, "origin": "pinned"},
            {"sql": "select a into tgt from src", "dialect": "mysql", "warm": "postgres", "metadata": None, "origin": "pinned"}]
    for i, it in enumerate(items):
        it["pre_calls"] = PRE[(i + chk.seed) % len(PRE)]
        # C18: every fourth result's exports are the ones the web application serves for the same text (POST /lineage)
        it["served"] = which == "C18" and (i % 4 == 1 or bool(it.get("warm"))) and it["dialect"] != "non-validating"
        if it["served"] and not it.get("warm") and it["dialect"] != "ansi":
            it["warm"] = "ansi"
    pool = mp.Pool(16)
    try:
        res = pool.map(_dump_chunk, chunks(items, 64))
    finally:
        pool.terminate()
    flat = [x for part in res for x in part]
    traces, meta = [], []
    nexc = 0
    for it, (p, extra, exc) in zip(items, flat):
        if p is None:
            nexc += 1
            continue
        traces.append(p)
        meta.append((it, extra))
        chk.count([it["sql"], it["dialect"]], nontrivial=len(p["cnodes"]) > 0)
    chk.cov["results_without_graph_(exceptions)"] = nexc
    cfg = os.path.join(tlc.SPEC, "Trace_Graph_%s.cfg" % which)
    verdicts = {}
    B = 1500
    for off in range(0, len(traces), B):
        v = core.validate_traces(chk, "Trace_Graph", cfg, traces[off:off + B], "graph%d" % off)
        for k, val in v.items():
            verdicts[off + k - 1] = val
    for i, (_, verdict) in sorted(verdicts.items()):
        if verdict == "ok":
            continue
        it, extra = meta[i]
        sig = {"module": "Graph", "clause": verdict, "features": features.features(it["sql"], it["dialect"]) or ["none"],
               "input": it["origin"] if it["origin"].startswith("tpcds/") else features.sql_id(it["sql"], it["dialect"]),
               "dup_cause": extra["dup_cause"]}
        chk.reject(sig, {"clause": verdict, "sql": it["sql"], "dialect": it["dialect"], "metadata": it["metadata"], "origin": it["origin"], "accessors_called_before": [str(x) for x in it.get("pre_calls", ())], "exports_served_by_the_web_application": bool(it.get("served")),
                         "dup_ids": extra["dup_ids"], "how": "harness.drive.dump -> harness.graph_proj.project -> Trace_Graph (%s clauses)" % which})
    if traces:
        big = max(traces, key=lambda t: len(t["cnodes"]))
        chk.sample({"sql": [m for m in meta if m[0]][0][0]["sql"][:200], "paths": len(traces[0]["paths"]), "column_nodes": len(traces[0]["cnodes"])})
        chk.cov["largest_graph_column_nodes"] = len(big["cnodes"])
    return traces, meta, verdicts, cfg
