"""Drivers for the real _SQLLineageConfigLoader (C15).  Renderers and projections only - no oracle logic.

 * OpReplayer   - replays one TLC behaviour (Config.tla, Atomic) with real threads, one operation at a time,
                  and records an op-level trace (result of every operation, views of every live thread obtained
                  by real reads in that thread, projected _thread_config / _thread_in_context_manager).
 * LineSched    - runs random thread programs under a deterministic line-level scheduler (sys.settrace on
                  config.py) and records one event per quantum.
"""
from harness import REPO as _REPO
import importlib
import os
import queue
import sys
import threading
import types

KEYMAP = {"S": "DEFAULT_SCHEMA", "B": "TSQL_NO_SEMICOLON"}
IDENT_INT = {"i1": 1001, "i2": 1002, "i3": 1003}
INT_IDENT = {v: k for k, v in IDENT_INT.items()}


def load_config_module():
    if _REPO not in sys.path:
        sys.path.insert(0, _REPO)
    import sqllineage.config as cfgmod
    return cfgmod


def raw_to_py(k, r):
    if k == "S" and r in ("n1", "f1", "bT"):
        return {"n1": 1, "f1": 1.0, "bT": True}[r]
    return {"n7": 7, "T": True, "F": False, "s_true": "true", "s_0": "0"}.get(r, r)


def py_to_model(v):
    if v is True:
        return "T"
    if v is False:
        return "F"
    if isinstance(v, str):
        return {"true": "s_true", "0": "s_0"}.get(v, v)
    if v == 7 and isinstance(v, int):
        return "n7"
    return "py:" + repr(v)


class Boom(Exception):
    pass


class Rig:
    """a fresh loader whose notion of 'current thread identifier' is under harness control"""

    def __init__(self, cfgmod, env, keymap=None):
        self.cfgmod = cfgmod
        self.keymap = dict(keymap or KEYMAP)
        self.inv = {v: k for k, v in self.keymap.items()}
        self.tl = threading.local()
        self.C = cfgmod._SQLLineageConfigLoader()
        rig = self

        def get_ident():
            return getattr(rig.tl, "ident", 999)

        # the loader calls self.get_ident(); a variant might call threading.get_ident() directly
        object.__setattr__(self.C, "get_ident", get_ident)
        self._orig_threading = cfgmod.threading
        shim = types.SimpleNamespace(**{n: getattr(threading, n) for n in dir(threading) if not n.startswith("__")})
        shim.get_ident = get_ident
        cfgmod.threading = shim
        self._saved_env = {}
        for k, real in self.keymap.items():
            name = "SQLLINEAGE_" + real
            self._saved_env[name] = os.environ.get(name)
            if env.get(k, "unset") != "unset":
                os.environ[name] = raw_to_py(k, env[k]) if isinstance(raw_to_py(k, env[k]), str) else str(env[k])
            else:
                os.environ.pop(name, None)

    def close(self):
        self.cfgmod.threading = self._orig_threading
        for name, v in self._saved_env.items():
            if v is None:
                os.environ.pop(name, None)
            else:
                os.environ[name] = v

    # ---- projections
    def state(self):
        tc = getattr(self.C, "_thread_config", {})
        out = []
        for ident, d in list(tc.items()):
            for key, val in list(d.items()):
                out.append([INT_IDENT.get(ident, "id:%r" % ident), self.inv.get(key, key), py_to_model(val)])
        inctx = [INT_IDENT.get(i, "id:%r" % i) for i in list(getattr(self.C, "_thread_in_context_manager", ()))]
        return sorted(out), sorted(inctx)

    def read_views(self, t):
        """executed IN thread t: what this thread reads for every key"""
        out = []
        for k, real in sorted(self.keymap.items()):
            try:
                v = py_to_model(getattr(self.C, real))
            except Exception as e:  # noqa
                v = "exc:" + type(e).__name__
            out.append([t, k, v])
        return out


class OpReplayer:
    def __init__(self, cfgmod, keymap=None):
        self.cfgmod = cfgmod
        self.keymap = keymap

    def run(self, case):
        """case = {"env": {...}, "hist": [entry...]} as printed by TLC.  Returns the recorded trace events."""
        rig = Rig(self.cfgmod, case["env"], self.keymap)
        CE = self.cfgmod.ConfigException
        C = rig.C
        cmdq = {}
        reply = queue.Queue()
        threads = {}
        held = {}
        events = []

        def next_cmd(t):
            while True:
                cmd = cmdq[t].get()
                if cmd == "probe":
                    reply.put(rig.read_views(t))
                    continue
                return cmd

        def scope(t, depth):
            while True:
                op = next_cmd(t)
                kind = op["op"]
                if kind == "end":
                    return "end"
                if kind == "read":
                    try:
                        res = py_to_model(getattr(C, rig.keymap[op["k"]]))
                    except Exception as e:  # noqa
                        res = type(e).__name__
                    reply.put(res)
                elif kind == "assign":
                    try:
                        setattr(C, rig.keymap[op["k"]], "zz")
                        res = "ok"
                    except CE:
                        res = "ConfigException"
                    except Exception as e:  # noqa
                        res = type(e).__name__
                    reply.put(res)
                elif kind == "close":
                    return "close"
                elif kind == "raise":
                    raise Boom()
                elif kind == "open":
                    kw = {(rig.keymap.get(p[0], "UNKNOWN_KEY")): raw_to_py(p[0], p[1]) for p in op["kw"]}
                    # keyword order matters (dict order is call order)
                    kw = {}
                    for p in op["kw"]:
                        kw[rig.keymap.get(p[0], "UNKNOWN_KEY")] = raw_to_py(p[0], p[1])
                    entered = False
                    try:
                        with C(**kw):
                            entered = True
                            reply.put("ok")
                            why = scope(t, depth + 1)
                        reply.put("ok")  # the close operation finished (the scope's exit ran)
                        if why == "end":
                            return "end"
                    except Boom:
                        reply.put("Boom")
                    except CE:
                        if not entered and op["onerr"] == "propagate" and depth > 0:
                            raise
                        reply.put("ConfigException")
                    except Exception as e:  # noqa
                        reply.put(type(e).__name__)

        def worker(t, ident):
            rig.tl.ident = IDENT_INT[ident]
            reply.put("ok")
            try:
                scope(t, 0)
            except BaseException as e:  # noqa
                reply.put("escaped:" + type(e).__name__)
                return
            reply.put("ok")

        def views():
            out = []
            for t in sorted(held):
                cmdq[t].put("probe")
                out += reply.get(timeout=3)
            return out

        def step(h):
                t, kind = h["t"], h["op"]
                if kind == "start":
                    cmdq[t] = queue.Queue()
                    th = threading.Thread(target=worker, args=(t, h["id"]), daemon=True)
                    threads[t] = th
                    th.start()
                    res = reply.get(timeout=3)
                    held[t] = h["id"]
                elif kind == "end":
                    cmdq[t].put({"op": "end"})
                    res = reply.get(timeout=3)
                    threads[t].join(timeout=10)
                    held.pop(t, None)
                else:
                    cmdq[t].put(h)
                    res = reply.get(timeout=3)
                tc, ic = rig.state()
                events.append({"e": kind if kind in ("start", "end") else "op", "t": t, "op": kind,
                               "kw": [list(p) for p in h["kw"]], "k": h["k"], "onerr": h["onerr"], "id": h["id"],
                               "res": res, "fresh": False, "views": views(), "tcfg": tc, "inctx": ic,
                               "held": [[a, b] for a, b in sorted(held.items())]})

        try:
            for h in case["hist"]:
                try:
                    step(h)
                except queue.Empty:
                    # the code left the protocol of the behaviour (an operation the model lets succeed was refused earlier, so a
                    # thread is no longer where the behaviour has it): the execution recorded so far already shows the difference
                    tc, ic = rig.state()
                    events.append({"e": "op", "t": h["t"], "op": h["op"] if h["op"] not in ("start", "end") else "read",
                                   "kw": [list(p) for p in h["kw"]], "k": h["k"] if h["op"] == "read" else "S", "onerr": h["onerr"], "id": h["id"],
                                   "res": "no_reply", "fresh": False, "views": [], "tcfg": tc, "inctx": ic,
                                   "held": [[a, b] for a, b in sorted(held.items())]})
                    break
        finally:
            for t in list(held):
                # unwind whatever is left so no thread lingers
                for _ in range(8):
                    cmdq[t].put({"op": "end"})
            rig.close()
        return events


def expected_events(case):
    """the machine's prediction for the same behaviour, in the trace's shape (for the O2 fast path / drift report)"""
    out = []
    for h in case["hist"]:
        out.append({"res": h["res"], "views": sorted([list(v) for v in h["views"]]),
                    "tcfg": sorted([list(x) for x in h["tcfg"]]), "inctx": sorted(h["inctx"])})
    return out


def observed_core(events):
    return [{"res": e["res"], "views": sorted(e["views"]), "tcfg": e["tcfg"], "inctx": e["inctx"]} for e in events]


# ---------------------------------------------------------------------------------------------------------------
class LineSched:
    """cooperative scheduler: exactly one worker runs; workers yield before each traced line of config.py"""

    def __init__(self, cfgmod, env, keymap=None):
        self.cfgmod = cfgmod
        self.file = cfgmod.__file__
        self.env = env
        self.keymap = keymap

    def run(self, lifetimes, choose):
        """lifetimes: list of {"t": model thread, "id": model ident, "ops": [op...]}; choose(list)->element.
        A lifetime may start only when the earlier lifetimes of the same model thread are over and no running
        lifetime holds its identifier (the runtime re-uses identifiers of finished threads only)."""
        rig = Rig(self.cfgmod, self.env, self.keymap)
        C = rig.C
        CE = self.cfgmod.ConfigException
        n = len(lifetimes)
        progs = [lt["ops"] for lt in lifetimes]
        idents = [lt["id"] for lt in lifetimes]
        names = [lt["t"] for lt in lifetimes]
        go = [threading.Semaphore(0) for _ in range(n)]
        back = threading.Semaphore(0)
        done = [False] * n
        started = [False] * n
        fresh = [True] * n
        cmd = [None] * n
        probe_out = [None] * n
        events = []
        tl = threading.local()
        where = [None] * n
        pending = [None] * n

        def pause(i):
            # hand control back and wait; serve probes while paused
            back.release()
            while True:
                go[i].acquire()
                if cmd[i] == "probe":
                    probe_out[i] = rig.read_views(names[i])
                    back.release()
                    continue
                return

        def local(frame, event, arg):
            if event == "line":
                i = tl.i
                where[i] = (frame.f_code.co_name, frame.f_lineno)
                pause(i)
                fresh[i] = False
            return local

        def tracer(frame, event, arg):
            if frame.f_code.co_filename != self.file:
                return None
            if frame.f_code.co_name in ("parse_value", "get_ident"):
                return None
            return local

        def ret(i, op, res):
            events.append({"e": "ret", "t": names[i], "op": op["op"], "kw": [list(p) for p in op.get("kw", [])],
                           "k": op.get("k", "none"), "onerr": op.get("onerr", "catch"), "id": idents[i], "res": res,
                           "fresh": False, "views": [], "tcfg": [], "inctx": [], "held": []})
            fresh[i] = True

        def scope(i, it, depth):
            for op in it:
                kind = op["op"]
                if kind == "read":
                    try:
                        res = py_to_model(getattr(C, rig.keymap[op["k"]]))
                    except Exception as e:  # noqa
                        res = type(e).__name__
                    ret(i, op, res)
                elif kind == "assign":
                    try:
                        setattr(C, rig.keymap[op["k"]], "zz")
                        res = "ok"
                    except CE:
                        res = "ConfigException"
                    ret(i, op, res)
                elif kind == "close":
                    return op
                elif kind == "raise":
                    raise Boom()
                elif kind == "open":
                    kw = {}
                    for p in op["kw"]:
                        kw[rig.keymap.get(p[0], "UNKNOWN_KEY")] = raw_to_py(p[0], p[1])
                    entered = False
                    try:
                        with C(**kw):
                            entered = True
                            ret(i, op, "ok")
                            closing = scope(i, it, depth + 1)
                        ret(i, closing or {"op": "close"}, "ok")
                    except Boom:
                        ret(i, {"op": "raise"}, "Boom")
                    except CE:
                        if not entered and op["onerr"] == "propagate" and depth > 0:
                            pending[i] = op
                            raise
                        ret(i, op if not entered else (pending[i] or op), "ConfigException")
                        pending[i] = None
                    except Exception as e:  # noqa
                        ret(i, op, type(e).__name__)
            return None

        def worker(i):
            tl.i = i
            rig.tl.ident = IDENT_INT[idents[i]]
            go[i].acquire()
            started[i] = True
            sys.settrace(tracer)
            try:
                scope(i, iter(progs[i]), 0)
            except BaseException as e:  # noqa
                events.append({"e": "ret", "t": names[i], "op": "escaped", "kw": [], "k": "none", "onerr": "catch",
                               "id": idents[i], "res": type(e).__name__, "fresh": False, "views": [], "tcfg": [],
                               "inctx": [], "held": []})
            finally:
                sys.settrace(None)
                done[i] = True
                back.release()

        ths = [threading.Thread(target=worker, args=(i,), daemon=True) for i in range(n)]
        for t in ths:
            t.start()

        def snapshot(kind, i):
            views = []
            for j in range(n):
                if started[j] and not done[j]:
                    cmd[j] = "probe"
                    go[j].release()
                    back.acquire()
                    cmd[j] = None
                    views += probe_out[j]
            tc, ic = rig.state()
            events.append({"e": kind, "t": names[i], "op": "none", "kw": [], "k": "none", "onerr": "catch",
                           "id": idents[i], "res": "none", "fresh": bool(fresh[i]) and not done[i],
                           "views": views, "tcfg": tc, "inctx": ic,
                           "held": [[names[j], idents[j]] for j in range(n) if started[j] and not done[j]],
                           "at": list(where[i]) if where[i] else []})

        steps = 0
        try:
            while not all(done):
                def eligible(k):
                    if done[k]:
                        return False
                    if started[k]:
                        return True
                    if any(names[j] == names[k] and not done[j] for j in range(k)):
                        return False
                    return not any(started[j] and not done[j] and idents[j] == idents[k] for j in range(n))
                i = choose([k for k in range(n) if eligible(k)])
                was_started = started[i]
                go[i].release()
                back.acquire()
                steps += 1
                if not was_started:
                    snapshot("start", i)
                elif done[i]:
                    snapshot("end", i)
                else:
                    snapshot("q", i)
        finally:
            rig.close()
        for t in ths:
            t.join(timeout=5)
        return events, steps
