"""Cheap input-feature predicates used only to IDENTIFY feature-scoped known findings (never to decide a verdict)."""
import hashlib
import re


def features(sql, dialect="ansi"):
    low = re.sub(r"\s+", " ", sql.lower())
    f = []
    if "lateral view" in low:
        f.append("lateral_view")
    if re.search(r"\brename\b", low):
        f.append("rename")
    if re.search(r"\bjoin\b", low) and re.search(r"\bfrom\b[^;]*,", low):
        f.append("join_and_comma")
    if "{{" in low or "{%" in low or "{#" in low:
        f.append("jinja_open")
    if re.search(r"select\s*\(\s*select", low) or re.search(r",\s*\(\s*select", low):
        f.append("scalar_subquery_in_select_list")
    if "having" in low and re.search(r"having[^;]*\(\s*select", low):
        f.append("having_subquery")
    return f


def sql_id(sql, dialect="ansi"):
    return hashlib.sha1((dialect + "\0" + sql).encode()).hexdigest()[:12]
