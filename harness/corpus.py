"""Harvest the corpus: every SQL text the repository's own tests feed to the analyser (tests/sql/**), with its dialect,
plus the bundled TPC-DS queries.  The assertion helpers are replaced by recorders; nothing is asserted here."""
from harness import REPO as _REPO
import importlib
import inspect
import itertools
import json
import os
import pkgutil
import sys
import warnings

CACHE = None


def harvest(repo=_REPO):
    global CACHE
    if CACHE is not None:
        return CACHE
    if repo not in sys.path:
        sys.path.insert(0, repo)
    warnings.simplefilter("ignore")
    import tests.helpers as H
    corpus = []

    def rec_table(sql, source_tables=None, target_tables=None, dialect="ansi", test_sqlfluff=True, test_sqlparse=True, **kw):
        corpus.append({"level": "table", "sql": sql, "dialect": dialect, "sqlfluff": test_sqlfluff, "sqlparse": test_sqlparse,
                       "metadata": None})

    def rec_col(sql, column_lineages=None, dialect="ansi", metadata_provider=None, test_sqlfluff=True, test_sqlparse=True, **kw):
        md = None
        if metadata_provider is not None and hasattr(metadata_provider, "metadata"):
            md = dict(metadata_provider.metadata)
        corpus.append({"level": "column", "sql": sql, "dialect": dialect, "sqlfluff": test_sqlfluff, "sqlparse": test_sqlparse,
                       "metadata": md})
    saved = (H.assert_table_lineage_equal, H.assert_column_lineage_equal)
    H.assert_table_lineage_equal, H.assert_column_lineage_equal = rec_table, rec_col
    try:
        import tests.sql
        for m in pkgutil.walk_packages(tests.sql.__path__, "tests.sql."):
            try:
                mod = importlib.import_module(m.name)
            except Exception:  # noqa
                continue
            # modules did "from ...helpers import assert_*": rebind
            for nm, fn in (("assert_table_lineage_equal", rec_table), ("assert_column_lineage_equal", rec_col)):
                if hasattr(mod, nm):
                    setattr(mod, nm, fn)
            for name, fn in inspect.getmembers(mod, inspect.isfunction):
                if not name.startswith("test_") or fn.__module__ != mod.__name__:
                    continue
                marks = getattr(fn, "pytestmark", [])
                params = [mk for mk in marks if mk.name == "parametrize"]
                try:
                    if not params:
                        if inspect.signature(fn).parameters:
                            continue
                        fn()
                    else:
                        names = [p.args[0] for p in params]
                        vals = [p.args[1] for p in params]
                        for combo in itertools.product(*vals):
                            kw = {}
                            for nm, v in zip(names, combo):
                                if "," in nm:
                                    for a, b in zip([x.strip() for x in nm.split(",")], v):
                                        kw[a] = b
                                else:
                                    kw[nm] = v
                            fn(**kw)
                except Exception:  # noqa
                    pass
    finally:
        H.assert_table_lineage_equal, H.assert_column_lineage_equal = saved
    seen = set()
    out = []
    for c in corpus:
        key = (c["sql"], c["dialect"], json.dumps(c["metadata"], sort_keys=True))
        if key in seen:
            continue
        seen.add(key)
        c["origin"] = "tests"
        out.append(c)
    tp = os.path.join(repo, "sqllineage", "data", "tpcds")
    for f in sorted(os.listdir(tp)):
        if f.endswith(".sql"):
            out.append({"level": "column", "sql": open(os.path.join(tp, f)).read(), "dialect": "ansi", "sqlfluff": True,
                        "sqlparse": False, "metadata": None, "origin": "tpcds/" + f})
    CACHE = out
    return out


if __name__ == "__main__":
    c = harvest()
    from collections import Counter
    print(len(c), Counter(x["dialect"] for x in c).most_common(30))
    print(sum(1 for x in c if x["metadata"]), "with metadata;", sum(1 for x in c if ";" in x["sql"].strip().rstrip(";")), "multi-statement")
