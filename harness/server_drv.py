"""Driver for the real WSGI application sqllineage.drawing.app (C17): renderer + projection, no oracle logic."""
from harness import REPO as _REPO
import io
import json
import os
import shutil
import sys

NODES = {  # node -> path relative to BASE
    "ROOT": "sqlroot", "CHILD": "sqlroot/child.sql", "SUB": "sqlroot/sub", "NESTED": "sqlroot/sub/nested.sql",
    "SIB": "sqlroot_sib", "SIBF": "sqlroot_sib/sib.sql", "OUT": "outside", "SECRET": "outside/secret.sql",
    "STATIC": "static", "INDEX": "static/index.html", "ASSET": "static/asset.js",
}
FILES = ["CHILD", "NESTED", "SIBF", "SECRET", "INDEX", "ASSET"]
WITNESS = {"ABOVE": "w_above.txt", "BASE": "w_base.txt", "ROOT": "w_root.txt", "SUB": "w_sub.txt", "SIB": "w_sib.txt",
           "OUT": "w_out.txt", "STATIC": "w_static.txt"}


def marker(node):
    return "mk_%s_q7" % node.lower()


def content(node, variant):
    m = marker(node)
    if node in ("INDEX", "ASSET"):
        return "<html>%s</html>" % m
    if variant == "valid":
        return "insert into %s_tgt select * from %s_src" % (m, m)
    return "select from where %s (" % m


class Tree:
    def __init__(self, scratch, variant="valid"):
        self.above = os.path.realpath(os.path.join(scratch, "above"))
        shutil.rmtree(self.above, ignore_errors=True)
        self.base = os.path.join(self.above, "base")
        os.makedirs(self.base)
        for node, rel in NODES.items():
            p = os.path.join(self.base, rel)
            if node in FILES:
                os.makedirs(os.path.dirname(p), exist_ok=True)
                with open(p, "w") as f:
                    f.write(content(node, variant))
            else:
                os.makedirs(p, exist_ok=True)
        for node, w in WITNESS.items():
            d = self.above if node == "ABOVE" else self.base if node == "BASE" else os.path.join(self.base, NODES[node])
            with open(os.path.join(d, w), "w") as f:
                f.write("witness")
        self.real = {os.path.realpath(os.path.join(self.base, rel)): n for n, rel in NODES.items()}
        self.real[self.base] = "BASE"
        self.real[self.above] = "ABOVE"

    def node_of(self, path):
        try:
            rp = os.path.realpath(path)
        except Exception:  # noqa
            return None
        if rp in self.real:
            return self.real[rp]
        if not (rp + "/").startswith(self.base + "/"):
            return "ABOVE"
        return None


class Rig:
    def __init__(self, scratch, variant="valid"):
        if _REPO not in sys.path:
            sys.path.insert(0, _REPO)
        import sqllineage.drawing as drawing
        self.drawing = drawing
        self.tree = Tree(scratch, variant)
        self.app = drawing.app
        drawing.STATIC_FOLDER = os.path.join(self.tree.base, "static")
        self.root_abs = os.path.join(self.tree.base, "sqlroot")

    def configure(self, start, rootset, which="ROOT"):
        from pathlib import Path
        cwd = self.root_abs if start == "root_rel" else self.tree.base
        os.chdir(cwd)
        if which == "OUT":
            root = os.path.join(self.tree.base, "outside") if rootset == "abs" else ("../outside" if start == "root_rel" else "outside")
        elif rootset == "abs":
            root = self.root_abs
        else:
            root = "." if start == "root_rel" else "sqlroot"
        self.app.root_path = Path(root)
        os.environ["SQLLINEAGE_DIRECTORY"] = root

    def path_string(self, start, segs):
        joined = "/".join(segs)
        if start == "root_abs":
            return self.root_abs + ("/" + joined if segs else "")
        if start == "base_abs":
            return self.tree.base + ("/" + joined if segs else "")
        return joined

    def request(self, route, start, segs):
        """returns (status class, sorted disclosed nodes, raw status)"""
        holder = {}

        def start_response(status, headers):
            holder["status"] = status
            holder["headers"] = headers
        if route == "get":
            parts = ([self.tree.base] if start == "abs" else []) + list(segs)
            environ = {"REQUEST_METHOD": "GET", "PATH_INFO": "/" + "/".join(parts)}
        else:
            p = self.path_string(start, segs)
            key = "d" if route == "directory_d" else "f"
            url = {"script_f": "/script", "lineage_f": "/lineage", "directory_d": "/directory", "directory_f": "/directory"}[route]
            body = json.dumps({key: p})
            environ = {"REQUEST_METHOD": "POST", "PATH_INFO": url, "CONTENT_LENGTH": len(body), "wsgi.input": io.StringIO(body)}
        try:
            out = self.app(environ, start_response)
            body = b"".join(x if isinstance(x, bytes) else str(x).encode() for x in out).decode("utf-8", "replace")
            status = holder.get("status", "")
            text = status + "\n" + repr(holder.get("headers")) + "\n" + body
        except BaseException as e:  # noqa: an escaping exception is a refusal; its text is part of what the client may see
            status = "exception:" + type(e).__name__
            text = status + "\n" + str(e)
            body = ""
        disclosed = set()
        low = text.lower()
        for n in FILES:
            if marker(n) in low:
                disclosed.add(n)
        for n, w in WITNESS.items():
            if w in text:
                disclosed.add(n)
        if body.startswith("{") and '"children"' in body:
            try:
                d = json.loads(body)
                if isinstance(d.get("children"), list) and d["children"]:
                    n = self.tree.node_of(d.get("id", ""))
                    if n:
                        disclosed.add(n)
            except ValueError:
                pass
        return ("ok" if status.startswith("200") else "refused"), sorted(disclosed), status
