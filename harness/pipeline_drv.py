"""Driver for whole runs of the real LineageRunner under a statement-level scheduler (C12, C10 silent mode).
Taps are class-level wrappers installed in the harness process only (no source hook): they are active only for threads
that carry a controller in thread-local storage.  Renderer + projection, no oracle logic."""
from harness import REPO as _REPO
import inspect
import sys
import threading
import warnings

if _REPO not in sys.path:
    sys.path.insert(0, _REPO)

SQL = {"mk1": "create table tmp as select a1, a2 from src",
       "mk2": "create table tmp as select b1 from src",
       "use": "insert into out{k} select * from tmp",
       "bad": "select from where",
       "unsup": "create index idx on src (a1)",
       "dial": "select a1 into outd from src"}
BASES = {"p1": {"<default>.src": ["a1", "a2", "b1"]},
         "p2": {"<default>.src": ["a1", "a2", "b1"], "<default>.tmp": ["z1"]}}
_tl = threading.local()
_installed = False


class InjectedFault(Exception):
    pass


class Ctl:
    def __init__(self, name, fault):
        self.name = name
        self.fault = fault
        self.go = threading.Semaphore(0)
        self.back = threading.Semaphore(0)
        self.uses = 0
        self.fired = False
        self.cur = None
        self.done = False
        self.events = []
        self.warned = []

    def pause(self, why):
        self.back.release()
        self.go.acquire()


def install():
    global _installed
    if _installed:
        return
    from sqllineage.core.metadata_provider import MetaDataProvider
    from sqllineage.core.parser.sqlfluff.analyzer import SqlFluffLineageAnalyzer
    orig_analyze = SqlFluffLineageAnalyzer.analyze
    orig_get = MetaDataProvider.get_table_columns
    orig_dereg = MetaDataProvider.deregister_session_metadata
    orig_reg = MetaDataProvider.register_session_metadata

    def analyze(self, sql, metadata_provider):
        c = getattr(_tl, "ctl", None)
        if c is not None:
            c.pause("analyze")
            c.cur = sql
            c.armed = sql.strip().lower().startswith("insert into out")
            if c.armed:
                c.uses += 1
        return orig_analyze(self, sql, metadata_provider)

    def get_table_columns(self, table, **kw):
        c = getattr(_tl, "ctl", None)
        if c is not None and str(table).endswith(".tmp"):
            if c.fault and getattr(c, "armed", False) and c.uses == c.fault and not c.fired:
                c.fired = True
                c.events.append(("lookup_fault", str(table)))
                raise InjectedFault("injected provider fault")
            ans = orig_get(self, table, **kw)
            c.events.append(("lookup", [x.raw_name for x in ans]))
            return ans
        return orig_get(self, table, **kw)

    def register(self, table, columns):
        c = getattr(_tl, "ctl", None)
        if c is not None:
            c.events.append(("register", str(table), [x.raw_name for x in columns]))
        return orig_reg(self, table, columns)

    def deregister(self):
        c = getattr(_tl, "ctl", None)
        if c is not None:
            c.pause("deregister")
            c.events.append(("deregister",))
        return orig_dereg(self)
    warnings.simplefilter("always")

    def showwarning(message, category, filename, lineno, file=None, line=None):
        c = getattr(_tl, "ctl", None)
        if c is not None:
            c.warned.append(str(message))
    warnings.showwarning = showwarning
    SqlFluffLineageAnalyzer.analyze = analyze
    MetaDataProvider.get_table_columns = get_table_columns
    MetaDataProvider.register_session_metadata = register
    MetaDataProvider.deregister_session_metadata = deregister
    _installed = True


def text_of(script, dia="ansi"):
    return (";\n" if dia == "ansi" else "\n").join(SQL[s].replace("{k}", str(i + 1)) for i, s in enumerate(script))


def default_provider():
    from sqllineage.runner import LineageRunner
    return inspect.signature(LineageRunner.__init__).parameters["metadata_provider"].default


class World:
    """providers live as long as the history: p1/p2 are re-used by later runs, dflt is the library's shared default"""

    def __init__(self):
        from sqllineage.core.metadata.dummy import DummyMetaDataProvider
        install()
        self.prov = {p: DummyMetaDataProvider(dict(m)) for p, m in BASES.items()}
        self.prov["dflt"] = default_provider()
        self.ctl = {}
        self.threads = {}
        self.results = {}

    def answers(self):
        from sqllineage.core.models import Table
        out = {}
        for p, prov in self.prov.items():
            cols = [c.raw_name for c in prov.get_table_columns(Table("tmp"))]
            out[p] = cols if cols else ["*"]
        return out

    def begin(self, r, p, script, silent, fault, dia="ansi"):
        from sqllineage.config import SQLLineageConfig
        from sqllineage.runner import LineageRunner
        c = Ctl(r, fault)
        self.ctl[r] = c
        text = text_of(script, dia)
        n = len(script)

        def body():
            _tl.ctl = c
            res = {"outcome": "ok", "seen": [], "warnings": 0}
            if True:
                try:
                    kw = {} if p == "dflt" else {"metadata_provider": self.prov[p]}
                    if dia == "tsql_ns":
                        with SQLLineageConfig(TSQL_NO_SEMICOLON=True):
                            lr = LineageRunner(text, dialect="tsql", silent_mode=silent, **kw)
                            paths = lr.get_column_lineage()
                    else:
                        lr = LineageRunner(text, silent_mode=silent, **kw)
                        paths = lr.get_column_lineage()
                    tgt = {}
                    for path in paths:
                        last = path[-1]
                        tgt.setdefault(str(last.parent), set()).add(last.raw_name)
                    for k in range(n):
                        if script[k] == "use":
                            cols = tgt.get("<default>.out%d" % (k + 1))
                            if cols is not None:
                                res["seen"].append(sorted(cols))
                            else:
                                res["seen"].append(["<no lineage>"])
                        elif script[k] == "dial":
                            res["seen"].append(["into"] if "<default>.outd" in [str(t) for t in lr.target_tables] else ["<not a target>"])
                    res["source"] = [str(t) for t in lr.source_tables]
                    res["target"] = [str(t) for t in lr.target_tables]
                except InjectedFault:
                    res["outcome"] = "ProviderFault"
                except Exception as e:  # noqa
                    res["outcome"] = type(e).__name__
                res["warnings"] = sum(1 for w in c.warned if "doesn't support analyzing statement type" in w)
            _tl.ctl = None
            self.results[r] = res
            c.done = True
            c.back.release()
        t = threading.Thread(target=body, daemon=True)
        self.threads[r] = t
        t.start()
        c.back.acquire()      # paused before the first analyse call (or finished already)

    def step(self, r):
        c = self.ctl[r]
        if c.done:
            return
        c.go.release()
        c.back.acquire()

    def finish(self, r):
        c = self.ctl[r]
        guard = 0
        while not c.done and guard < 50:
            c.go.release()
            c.back.acquire()
            guard += 1
        self.threads[r].join(timeout=10)
        return self.results.get(r, {"outcome": "no result", "seen": [], "warnings": 0})


def replay(case):
    """case["log"] from Pipeline.tla -> recorded trace events (same vocabulary)"""
    w = World()
    ev = []
    lens = {}
    progress = {}
    for e in case["log"]:
        r = e["r"]
        if e["e"] == "begin":
            w.begin(r, e["p"], e["script"], e["silent"], e["fault"], e.get("dia", "ansi"))
            lens[r] = len(e["script"])
            progress[r] = 0
            ev.append({"e": "begin", "r": r, "p": e["p"], "script": list(e["script"]), "silent": e["silent"], "fault": e["fault"], "dia": e.get("dia", "ansi"),
                       "k": 0, "outcome": "none", "seen": [], "warnings": 0, "answers": w.answers()})
        elif e["e"] == "step":
            if e["k"] <= lens[r]:
                w.step(r)
            ev.append({"e": "step", "r": r, "p": "none", "script": [], "silent": False, "fault": 0, "dia": "ansi", "k": e["k"],
                       "outcome": "none", "seen": [], "warnings": 0, "answers": w.answers()})
        elif e["e"] == "exit":
            res = w.finish(r)
            ev.append({"e": "exit", "r": r, "p": "none", "script": [], "silent": False, "fault": 0, "dia": "ansi", "k": 0,
                       "outcome": res["outcome"], "seen": res["seen"], "warnings": res["warnings"], "answers": w.answers(),
                       "taps": [list(x) for x in w.ctl[r].events][:40]})
    for r in list(w.ctl):
        if not w.ctl[r].done:
            w.finish(r)
    return ev
